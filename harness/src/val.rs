//! Output values: the Rust mirror of the tagged tuples of spec/Ast.tla, plus the
//! drop-accounting used for C19.
use serde_json::{json, Value as J};
use std::cell::RefCell;
use std::collections::HashSet;

thread_local! {
    pub static LIVE: RefCell<HashSet<u64>> = RefCell::new(HashSet::new());
    pub static NEXT_ID: RefCell<u64> = RefCell::new(1);
    pub static DOUBLE_DROP: RefCell<u64> = RefCell::new(0);
    pub static CREATED: RefCell<u64> = RefCell::new(0);
}

/// A token that registers itself on creation and unregisters on drop: every value made by a user
/// mapper carries one, so leaks and double drops are observable.
#[derive(Debug)]
pub struct Track(u64);

impl Track {
    pub fn new() -> Track {
        let id = NEXT_ID.with(|n| {
            let mut n = n.borrow_mut();
            let id = *n;
            *n += 1;
            id
        });
        LIVE.with(|l| l.borrow_mut().insert(id));
        CREATED.with(|c| *c.borrow_mut() += 1);
        Track(id)
    }
}
impl Clone for Track {
    fn clone(&self) -> Track {
        Track::new()
    }
}
impl Drop for Track {
    fn drop(&mut self) {
        let was = LIVE.with(|l| l.borrow_mut().remove(&self.0));
        if !was {
            DOUBLE_DROP.with(|d| *d.borrow_mut() += 1);
        }
    }
}
impl PartialEq for Track {
    fn eq(&self, _: &Track) -> bool {
        true
    }
}

pub fn live_count() -> usize {
    LIVE.with(|l| l.borrow().len())
}
pub fn reset_tracking() {
    LIVE.with(|l| l.borrow_mut().clear());
    DOUBLE_DROP.with(|d| *d.borrow_mut() = 0);
    CREATED.with(|c| *c.borrow_mut() = 0);
}
pub fn double_drops() -> u64 {
    DOUBLE_DROP.with(|d| *d.borrow())
}
pub fn created() -> u64 {
    CREATED.with(|c| *c.borrow())
}

#[derive(Clone, Debug, PartialEq)]
pub enum Val {
    U,
    T(char),
    S(Vec<char>),
    P(Box<Val>, Box<Val>),
    L(Vec<Val>),
    O(Box<Val>),
    N,
    M(String, Box<Val>, Track),
    K(String, Track),
    I(i64),
    C(i64),
    Sp(usize, usize),
    Sl(usize, usize),
    W(Box<Val>, usize, usize, Box<Val>, usize, Track),
    G(Vec<Val>),
    A(Vec<Val>),
    F(String, Box<Val>, Box<Val>, Track),
    Str(Vec<char>),
    E(String),
    /// context-extended span (with_context): (ctx, s, e)
    SpC(i64, usize, usize),
}

impl Default for Val {
    fn default() -> Val {
        Val::U
    }
}

/// model token names <-> characters ("E" is a 2-byte, "W" a 4-byte character in &str)
pub fn tok_to_char(s: &str) -> char {
    match s {
        "E" => '\u{e9}',
        "W" => '\u{1D11E}',
        // multi-code-point grapheme clusters (kind "graph"; elsewhere they are just unusual characters)
        // U+0161: outside Latin-1, low byte 0x61 = 'a' (truncating casts confuse it with 'a')
        "Z" => '\u{161}',
        "G" => '\u{E000}',
        "U" => '\u{E001}',
        "D" => '\u{E002}', // CR LF: one cluster
        // C14: whitespace and line terminators have token names
        "S" => ' ',
        "T" => '\t',
        "N" => '\n',
        "R" => '\r',
        "V" => '\u{b}',
        "F" => '\u{c}',
        "X" => '\u{85}',
        "L" => '\u{2028}',
        "P" => '\u{2029}',
        // C14 boundary characters: Unicode spaces, a non-space look-alike, a non-ASCII decimal digit
        "H" => '\u{a0}',
        "I" => '\u{3000}',
        "K" => '\u{200b}',
        "M" => '\u{663}',
        "" => '\u{0}',
        _ => s.chars().next().unwrap(),
    }
}
pub fn char_to_tok(c: char) -> String {
    match c {
        '\u{e9}' => "E".to_string(),
        '\u{1D11E}' => "W".to_string(),
        '\u{161}' => "Z".to_string(),
        '\u{E000}' => "G".to_string(),
        '\u{E001}' => "U".to_string(),
        '\u{E002}' => "D".to_string(),
        ' ' => "S".to_string(),
        '\t' => "T".to_string(),
        '\n' => "N".to_string(),
        '\r' => "R".to_string(),
        '\u{b}' => "V".to_string(),
        '\u{c}' => "F".to_string(),
        '\u{85}' => "X".to_string(),
        '\u{2028}' => "L".to_string(),
        '\u{2029}' => "P".to_string(),
        '\u{a0}' => "H".to_string(),
        '\u{3000}' => "I".to_string(),
        '\u{200b}' => "K".to_string(),
        '\u{663}' => "M".to_string(),
        '\u{0}' => "".to_string(),
        _ => c.to_string(),
    }
}

impl Val {
    pub fn m(f: &str, v: Val) -> Val {
        Val::M(f.to_string(), Box::new(v), Track::new())
    }
    pub fn k(c: &str) -> Val {
        Val::K(c.to_string(), Track::new())
    }
    pub fn f(f: &str, a: Val, b: Val) -> Val {
        Val::F(f.to_string(), Box::new(a), Box::new(b), Track::new())
    }
    pub fn w(v: Val, s: usize, e: usize, c: Val, ic: usize) -> Val {
        Val::W(Box::new(v), s, e, Box::new(c), ic, Track::new())
    }
    pub fn p(a: Val, b: Val) -> Val {
        Val::P(Box::new(a), Box::new(b))
    }

    pub fn to_json(&self) -> J {
        let toks = |s: &Vec<char>| J::Array(s.iter().map(|c| J::String(char_to_tok(*c))).collect());
        let seq = |s: &Vec<Val>| J::Array(s.iter().map(|v| v.to_json()).collect());
        match self {
            Val::U => json!(["U"]),
            Val::T(c) => json!(["T", char_to_tok(*c)]),
            Val::S(s) => json!(["S", toks(s)]),
            Val::P(a, b) => json!(["P", a.to_json(), b.to_json()]),
            Val::L(s) => json!(["L", seq(s)]),
            Val::O(v) => json!(["O", v.to_json()]),
            Val::N => json!(["N"]),
            Val::M(f, v, _) => json!(["M", f, v.to_json()]),
            Val::K(c, _) => json!(["K", c]),
            Val::I(n) => json!(["I", n]),
            Val::C(n) => json!(["C", n]),
            Val::Sp(s, e) => json!(["Sp", s, e]),
            Val::Sl(s, e) => json!(["Sl", s, e]),
            Val::W(v, s, e, c, ic, _) => json!(["W", v.to_json(), s, e, c.to_json(), ic]),
            Val::G(s) => json!(["G", seq(s)]),
            Val::A(s) => json!(["A", seq(s)]),
            Val::F(f, a, b, _) => json!(["F", f, a.to_json(), b.to_json()]),
            Val::Str(s) => json!(["Str", toks(s)]),
            Val::E(t) => json!(["E", t]),
            Val::SpC(c, s, e) => json!(["SpC", c, s, e]),
        }
    }

    pub fn from_json(j: &J) -> Result<Val, String> {
        let a = j.as_array().ok_or_else(|| format!("value not an array: {j}"))?;
        let tag = a.get(0).and_then(|t| t.as_str()).ok_or_else(|| format!("value without tag: {j}"))?;
        let toks = |x: &J| -> Result<Vec<char>, String> {
            Ok(x.as_array().ok_or("toks")?.iter().map(|t| tok_to_char(t.as_str().unwrap_or(""))).collect())
        };
        let seq = |x: &J| -> Result<Vec<Val>, String> { x.as_array().ok_or("seq")?.iter().map(Val::from_json).collect() };
        let us = |x: &J| x.as_u64().unwrap_or(0) as usize;
        Ok(match tag {
            "U" => Val::U,
            "T" => Val::T(tok_to_char(a[1].as_str().unwrap_or(""))),
            "S" => Val::S(toks(&a[1])?),
            "P" => Val::p(Val::from_json(&a[1])?, Val::from_json(&a[2])?),
            "L" => Val::L(seq(&a[1])?),
            "O" => Val::O(Box::new(Val::from_json(&a[1])?)),
            "N" => Val::N,
            "M" => Val::m(a[1].as_str().unwrap_or(""), Val::from_json(&a[2])?),
            "K" => Val::k(a[1].as_str().unwrap_or("")),
            "I" => Val::I(a[1].as_i64().unwrap_or(0)),
            "C" => Val::C(a[1].as_i64().unwrap_or(0)),
            "Sp" => Val::Sp(us(&a[1]), us(&a[2])),
            "Sl" => Val::Sl(us(&a[1]), us(&a[2])),
            "W" => Val::w(Val::from_json(&a[1])?, us(&a[2]), us(&a[3]), Val::from_json(&a[4])?, us(&a[5])),
            "G" => Val::G(seq(&a[1])?),
            "A" => Val::A(seq(&a[1])?),
            "F" => Val::f(a[1].as_str().unwrap_or(""), Val::from_json(&a[2])?, Val::from_json(&a[3])?),
            "Str" => Val::Str(toks(&a[1])?),
            "E" => Val::E(a[1].as_str().unwrap_or("").to_string()),
            _ => return Err(format!("unknown value tag {tag}")),
        })
    }

    /// the leftmost token inside a value (Ast.tla FirstTok); None if there is none
    pub fn first_tok(&self) -> Option<char> {
        fn in_seq(s: &[Val]) -> Option<char> {
            s.iter().find_map(|v| v.first_tok())
        }
        match self {
            Val::T(c) => Some(*c),
            Val::S(s) | Val::Str(s) => s.first().copied(),
            Val::P(a, b) => a.first_tok().or_else(|| b.first_tok()),
            Val::L(s) | Val::G(s) | Val::A(s) => in_seq(s),
            Val::O(v) => v.first_tok(),
            Val::M(_, v, _) => v.first_tok(),
            Val::W(v, ..) => v.first_tok(),
            Val::F(_, a, b, _) => a.first_tok().or_else(|| b.first_tok()),
            _ => None,
        }
    }

    /// Ast.tla CtxToks / CtxNum
    pub fn ctx_toks(&self) -> Vec<char> {
        match self {
            Val::T(c) => vec![*c],
            Val::S(s) => s.clone(),
            _ => vec![],
        }
    }
    pub fn ctx_num(&self) -> usize {
        match self {
            // the specification's integers are 32-bit: 2_000_000_000 stands for "as large as a count can be"
            Val::I(n) if *n >= 2_000_000_000 => usize::MAX,
            Val::I(n) => *n as usize,
            _ => 0,
        }
    }
}

/// user mappers (Ast.tla MapFn): symbolic except the few that compute
pub fn map_fn(f: &str, v: Val) -> Val {
    match f {
        "num" => Val::I(match v.first_tok() {
            Some('a') => 1,
            Some('b') => 2,
            Some('c') => 3,
            _ => 0,
        }),
        "big" => Val::I(2_000_000_000),
        "fst" => match v {
            Val::P(a, _) => *a,
            v => Val::m(f, v),
        },
        "snd" => match v {
            Val::P(_, b) => *b,
            v => Val::m(f, v),
        },
        _ => Val::m(f, v),
    }
}

/// the shared predicate vocabulary (Ast.tla Pred)
pub fn pred(p: &str, v: &Val) -> bool {
    match p {
        "T" => true,
        "F" => false,
        "nfa" => v.first_tok() != Some('a'),
        "fa" => v.first_tok() == Some('a'),
        "nfb" => v.first_tok() != Some('b'),
        _ => match v.first_tok() {
            Some(c) => in_class(p, &char_to_tok(c)),
            None => in_class(p, ""),
        },
    }
}

/// character classes over token names (Ast.tla InClass / DigVal)
pub fn in_class(cls: &str, t: &str) -> bool {
    let dig = |t: &str| -> u32 {
        match t {
            "0" => 0,
            "1" => 1,
            "7" => 7,
            "9" => 9,
            "a" => 10,
            "f" => 15,
            "z" => 35,
            "g" => 16,
            "A" => 10,
            _ => 99,
        }
    };
    let newline = ["N", "R", "V", "F", "X", "L", "P"];
    let iws = ["S", "T"];
    let letter = ["a", "f", "z", "g", "A"];
    let digitc = ["0", "1", "7", "9"];
    match cls {
        "ws" => newline.contains(&t) || iws.contains(&t) || t == "H" || t == "I",
        "iws" => iws.contains(&t),
        "nl" => newline.contains(&t),
        "aidstart" => letter.contains(&t) || t == "_",
        "aidcont" => letter.contains(&t) || t == "_" || digitc.contains(&t),
        "uidstart" => letter.contains(&t) || t == "_" || t == "E",
        "uidcont" => letter.contains(&t) || t == "_" || t == "E" || t == "M" || digitc.contains(&t),
        _ => {
            if let Some(r) = cls.strip_prefix("dig") {
                dig(t) < r.parse::<u32>().unwrap_or_else(|_| panic!("unknown predicate {cls}"))
            } else if let Some(r) = cls.strip_prefix("nz") {
                dig(t) < r.parse::<u32>().unwrap_or_else(|_| panic!("unknown predicate {cls}")) && t != "0"
            } else {
                panic!("unknown predicate {cls}")
            }
        }
    }
}
