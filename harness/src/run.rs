//! Run one case (grammar, input, input kind, error type, mode) against the real crate and project
//! the result onto the observation record shared with the specification.
use crate::ast::G;
use crate::build::{build, Kind};
use crate::errs::{ErrObs, ErrTy};
use crate::insp::{mix, take_log, Ev, St, BASE, LOCS};
use crate::val::{self, char_to_tok, tok_to_char, Val};
use chumsky::error::{Cheap, EmptyErr, Rich, Simple};
use crate::build::{CSpan, SSpan};
use chumsky::input::{Input, IoInput, Stream};
use chumsky::span::Span;
use chumsky::Parser;

thread_local! {
    /// indices of the items a Stream pulled from its iterator, in pull order (C10)
    pub static PULLS: std::cell::RefCell<Vec<usize>> = std::cell::RefCell::new(Vec::new());
}
/// an iterator that logs which item each `next` hands out
#[derive(Clone)]
pub struct Counting<I> {
    it: I,
    idx: usize,
}
impl<I: Iterator> Iterator for Counting<I> {
    type Item = I::Item;
    fn next(&mut self) -> Option<I::Item> {
        let x = self.it.next();
        if x.is_some() {
            PULLS.with(|p| p.borrow_mut().push(self.idx));
            self.idx += 1;
        }
        x
    }
}
use serde_json::{json, Value as J};
use std::panic::{catch_unwind, AssertUnwindSafe};

#[derive(Clone, Debug)]
pub struct Case {
    pub g: G,
    pub gj: J,
    pub inp: Vec<char>,
    pub kind: String,
    pub ety: String,
    pub mode: String, // "E" = parse, "C" = check
    /// C13: further inputs parsed afterwards through the same parser value
    pub more: Vec<Vec<char>>,
}

impl Case {
    pub fn from_json(j: &J) -> Result<Case, String> {
        Ok(Case {
            g: G::from_json(&j["g"])?,
            gj: j["g"].clone(),
            inp: j["inp"].as_array().ok_or("inp")?.iter().map(|t| tok_to_char(t.as_str().unwrap_or(""))).collect(),
            kind: j["kind"].as_str().unwrap_or("str").to_string(),
            ety: j["ety"].as_str().unwrap_or("rich").to_string(),
            mode: j["mode"].as_str().unwrap_or("E").to_string(),
            more: j["more"]
                .as_array()
                .map(|a| a.iter().map(|x| x.as_array().map(|t| t.iter().map(|t| tok_to_char(t.as_str().unwrap_or(""))).collect()).unwrap_or_default()).collect())
                .unwrap_or_default(),
        })
    }
    pub fn to_json(&self) -> J {
        json!({"g": self.gj, "inp": self.inp.iter().map(|c| char_to_tok(*c)).collect::<Vec<_>>(),
               "kind": self.kind, "ety": self.ety, "mode": self.mode,
               "more": self.more.iter().map(|x| x.iter().map(|c| char_to_tok(*c)).collect::<Vec<_>>()).collect::<Vec<_>>()})
    }
}

#[derive(Clone, Debug, Default)]
pub struct Obs {
    pub ok: bool,
    pub out: J,
    pub errs: Vec<ErrObs>,
    pub panic: Option<String>,
    pub insp: usize,
    pub hash_ok: bool,
    pub events: Vec<Ev>,
    /// ParseResult accessor consistency (C03): has_output, has_errors, into_result().is_ok()
    pub has_output: bool,
    pub has_errors: bool,
    pub result_ok: bool,
    /// ownership accounting (C19)
    pub live_with_result: i64,
    pub tracks_in_output: i64,
    pub live_after: i64,
    pub double_drops: u64,
    pub created: u64,
    pub pulls: Vec<usize>,
    /// C13: the observations of the earlier parses of a history (self is the last one)
    pub past: Vec<Obs>,
}

impl Obs {
    /// the observation in the shape of MC.tla's ReplayRec.res + obs
    pub fn to_json(&self) -> J {
        json!({
            "ok": self.ok, "out": self.out,
            "errs": self.errs.iter().map(|e| e.to_json()).collect::<Vec<_>>(),
            "panic": self.panic.is_some(), "insp": self.insp,
            "leaked": self.live_with_result - self.tracks_in_output,
            "obs": self.events.iter().map(|e| json!([e.id, e.cur, e.insp, e.ctx.to_json()])).collect::<Vec<_>>(),
            "past": self.past.iter().map(|o| o.to_json()).collect::<Vec<_>>(),
        })
    }
}

fn count_tracks(v: &Val) -> i64 {
    match v {
        Val::M(_, a, _) => 1 + count_tracks(a),
        Val::K(..) => 1,
        Val::F(_, a, b, _) => 1 + count_tracks(a) + count_tracks(b),
        Val::W(a, _, _, c, _, _) => 1 + count_tracks(a) + count_tracks(c),
        Val::P(a, b) => count_tracks(a) + count_tracks(b),
        Val::L(s) | Val::G(s) | Val::A(s) => s.iter().map(count_tracks).sum(),
        Val::O(a) => count_tracks(a),
        _ => 0,
    }
}

pub fn prefix_hashes(toks: &[char]) -> Vec<u64> {
    let mut v = vec![0u64];
    let mut h = 0;
    for c in toks {
        h = mix(h, *c);
        v.push(h);
    }
    v
}

pub fn run_kind<'a, I: Kind<'a>, E: ErrTy<'a, I>>(g: &G, input: I, toks: &[char], mode: &str) -> Result<Obs, String> {
    // building the grammar runs library code too (recursive(), boxed(), define()): a panic there is an observation
    let p = match catch_unwind(AssertUnwindSafe(|| build::<I, E>(g, &vec![]))) {
        Ok(p) => p?,
        Err(e) => {
            let msg = e.downcast_ref::<String>().cloned().or_else(|| e.downcast_ref::<&str>().map(|s| s.to_string())).unwrap_or_default();
            let mut o = Obs::default();
            o.panic = Some(format!("while building the parser: {msg}"));
            o.out = json!(["U"]);
            return Ok(o);
        }
    };
    Ok(parse_one::<I, E, _>(&p, input, toks, mode))
}

/// C13: one parser value, several parses, each through a different handle on it (the original, a clone, a
/// reference, Box, Rc, Arc, a second boxed(), Either); `sched` rotates which handle serves which parse
pub fn run_kind_hist<'a, I: Kind<'a>, E: ErrTy<'a, I>>(g: &G, inputs: Vec<(I, Vec<char>)>, mode: &str, sched: usize) -> Result<Obs, String> {
    use chumsky::Parser as _;
    let p = build::<I, E>(g, &vec![])?;
    let boxed = Box::new(p.clone());
    let rc = std::rc::Rc::new(p.clone());
    let arc = std::sync::Arc::new(p.clone());
    let reboxed = p.clone().boxed();
    let left: either::Either<crate::build::P<'a, I, E>, crate::build::P<'a, I, E>> = either::Either::Left(p.clone());
    let right: either::Either<crate::build::P<'a, I, E>, crate::build::P<'a, I, E>> = either::Either::Right(p.clone());
    let mut all = vec![];
    for (i, (input, toks)) in inputs.into_iter().enumerate() {
        let o = match (i + sched) % 9 {
            0 => parse_one::<I, E, _>(&p, input, &toks, mode),
            1 => parse_one::<I, E, _>(&p.clone(), input, &toks, mode),
            2 => parse_one::<I, E, _>(&&p, input, &toks, mode),
            3 => parse_one::<I, E, _>(&boxed, input, &toks, mode),
            4 => parse_one::<I, E, _>(&rc, input, &toks, mode),
            5 => parse_one::<I, E, _>(&arc, input, &toks, mode),
            6 => parse_one::<I, E, _>(&reboxed, input, &toks, mode),
            7 => parse_one::<I, E, _>(&left, input, &toks, mode),
            _ => parse_one::<I, E, _>(&right, input, &toks, mode),
        };
        all.push(o);
    }
    let mut last = all.pop().ok_or("empty history")?;
    last.past = all;
    Ok(last)
}

/// C13: the parser kept in a `chumsky::cache::Cache` (built once for 'static, handed out for every input lifetime)
pub struct AstCacher(pub G);
impl chumsky::cache::Cached for AstCacher {
    type Parser<'src> = crate::build::P<'src, &'src str, Rich<'src, char>>;
    fn make_parser<'src>(self) -> Self::Parser<'src> {
        build::<&'src str, Rich<'src, char>>(&self.0, &vec![]).expect("grammar was built before")
    }
}

/// the history of a case through one Cache: every input is a String that lives only for its own parse, so each
/// `Cache::get` hands the one cached parser out at a different lifetime
pub fn run_hist_cache(c: &Case, mode: &str) -> Result<Obs, String> {
    val::reset_tracking();
    let mut all: Vec<Vec<char>> = vec![c.inp.clone()];
    all.extend(c.more.iter().cloned());
    if all.iter().any(|v| v.iter().any(|t| !t.is_ascii())) {
        return Err("histories over &str use ASCII tokens".into());
    }
    LOCS.with(|l| l.borrow_mut().clear());
    BASE.with(|b| *b.borrow_mut() = (0, 1));
    // fail early (and without panicking inside make_parser) if the grammar cannot be built for this kind
    build::<&str, Rich<char>>(&c.g, &vec![])?;
    let cache = chumsky::cache::Cache::new(AstCacher(c.g.clone()));
    let mut obs = vec![];
    for toks in all.iter() {
        let s: String = toks.iter().collect();
        let o = parse_one::<&str, Rich<char>, _>(cache.get(), &s[..], toks, mode);
        obs.push(o);
    }
    let mut last = obs.pop().ok_or("empty history")?;
    last.past = obs;
    Ok(last)
}

pub fn parse_one<'a, I: Kind<'a>, E: ErrTy<'a, I>, Pz: Parser<'a, I, Val, crate::build::X<E>>>(p: &Pz, input: I, toks: &[char], mode: &str) -> Obs {
    let _ = take_log();
    BASE.with(|b| *b.borrow_mut() = input.base());
    let live0 = val::live_count() as i64;
    let dd0 = val::double_drops();
    let cr0 = val::created();
    let mut st = St::default();
    let mut o = Obs::default();
    crate::insp::FUEL.with(|f| f.set(crate::insp::budget(toks.len())));
    let res = catch_unwind(AssertUnwindSafe(|| {
        if mode == "E" {
            let r = p.parse_with_state(input, &mut st);
            let has_output = r.has_output();
            let has_errors = r.has_errors();
            let out = r.output().map(|v| v.to_json());
            let errs: Vec<ErrObs> = r.errors().map(|e| e.obs()).collect();
            // what is alive while the caller holds the OUTPUT: errors may own clones of tokens (tracked token kinds),
            // which are handed to the caller like the output and are not leaks -- they are dropped first
            let (result_ok, live_with, tracks) = match r.into_result() {
                Ok(output) => {
                    let lw = val::live_count() as i64 - live0;
                    let tr = count_tracks(&output);
                    drop(output);
                    (true, lw, tr)
                }
                Err(errors) => {
                    // into_result has dropped the output (if any): whatever is alive besides the errors was lost
                    drop(errors);
                    (false, val::live_count() as i64 - live0, 0)
                }
            };
            (has_output, has_errors, result_ok, out, errs, live_with, tracks)
        } else {
            let r = p.check_with_state(input, &mut st);
            let has_output = r.has_output();
            let has_errors = r.has_errors();
            let errs: Vec<ErrObs> = r.errors().map(|e| e.obs()).collect();
            let res = r.into_result();
            let result_ok = res.is_ok();
            drop(res);      // the errors may own clones of tokens: handed to the caller, not lost
            let live_with = val::live_count() as i64 - live0;
            (has_output, has_errors, result_ok, if has_output { Some(json!(["U"])) } else { None }, errs, live_with, 0)
        }
    }));
    crate::insp::note_used(toks.len());
    crate::insp::FUEL.with(|f| f.set(u64::MAX));
    o.events = take_log();
    let ph = prefix_hashes(toks);
    o.hash_ok = o.events.iter().all(|e| e.insp < ph.len() && ph[e.insp] == e.hash);
    match res {
        Ok((has_output, has_errors, result_ok, out, errs, live_with, tracks)) => {
            o.ok = has_output;
            o.has_output = has_output;
            o.has_errors = has_errors;
            o.result_ok = result_ok;
            o.out = out.unwrap_or(json!(["U"]));
            o.errs = errs;
            o.insp = st.count;
            o.hash_ok = o.hash_ok && st.count < ph.len() && ph[st.count] == st.hash;
            o.live_with_result = live_with;
            o.tracks_in_output = tracks;
        }
        Err(e) => {
            let msg = e.downcast_ref::<String>().cloned().or_else(|| e.downcast_ref::<&str>().map(|s| s.to_string())).unwrap_or_default();
            o.panic = Some(msg);
            o.out = json!(["U"]);
            o.insp = st.count;
        }
    }
    o.pulls = PULLS.with(|p| p.borrow().clone());
    o.live_after = val::live_count() as i64 - live0;
    o.double_drops = val::double_drops() - dd0;
    o.created = val::created() - cr0;
    o
}

macro_rules! by_ety {
    ($ety:expr, $I:ty, $tokty:ty, $g:expr, $inp:expr, $toks:expr, $mode:expr) => {
        match $ety {
            "rich" => run_kind::<$I, Rich<$tokty>>($g, $inp, $toks, $mode),
            "simple" => run_kind::<$I, Simple<$tokty>>($g, $inp, $toks, $mode),
            "cheap" => run_kind::<$I, Cheap>($g, $inp, $toks, $mode),
            "empty" => run_kind::<$I, EmptyErr>($g, $inp, $toks, $mode),
            e => Err(format!("unknown error type {e}")),
        }
    };
}

pub fn str_offsets(toks: &[char]) -> Vec<usize> {
    let mut v = vec![0];
    let mut o = 0;
    for c in toks {
        o += c.len_utf8();
        v.push(o);
    }
    v
}

/// Run a case with an explicit kind / error type / mode (overriding the case's own when given).
pub fn run_case_as(c: &Case, kind: &str, ety: &str, mode: &str) -> Result<Obs, String> {
    val::reset_tracking();
    if !c.more.is_empty() {
        return run_hist_as(c, kind, ety, mode, 0);
    }
    match kind {
        // the grammar as a statically typed parser (harness/src/stat.rs), on &str with Rich errors; "staticc" = a deep
        // clone of that parser value
        "static" | "staticc" => {
            if ety != "rich" {
                return Err(format!("error type {ety} not instantiated for kind {kind}"));
            }
            let key = c.gj.to_string();
            let idx = crate::stat::ASTS.iter().position(|a| serde_json::from_str::<J>(a).map_or(false, |j| j.to_string() == key)).ok_or("no statically typed parser for this grammar")?;
            let s: String = c.inp.iter().collect();
            LOCS.with(|l| *l.borrow_mut() = str_offsets(&c.inp));
            crate::stat::run_static(idx, &s[..], &c.inp, mode, kind == "staticc").ok_or_else(|| "no such static parser".to_string())
        }
        "str" => {
            let s: String = c.inp.iter().collect();
            LOCS.with(|l| *l.borrow_mut() = str_offsets(&c.inp));
            BASE.with(|b| *b.borrow_mut() = (s.as_ptr() as usize, 1));
            by_ety!(ety, &str, char, &c.g, &s[..], &c.inp, mode)
        }
        "slice" => {
            let v: Vec<char> = c.inp.clone();
            LOCS.with(|l| l.borrow_mut().clear());
            BASE.with(|b| *b.borrow_mut() = (v.as_ptr() as usize, std::mem::size_of::<char>()));
            match ety {
                "rich" => run_kind::<&[char], Rich<char>>(&c.g, &v[..], &c.inp, mode),
                e => Err(format!("error type {e} not instantiated for kind slice")),
            }
        }
        // C19: tokens with observable ownership.  The caller's buffer (tslice) is dropped before the double-drop counter
        // is read, so a token of the caller that the library dropped shows up as a double drop; a Stream owns its
        // tokens and takes them with it (live_after is corrected by their number)
        "tslice" | "tstream" => {
            if ety != "rich" {
                return Err(format!("error type {ety} not instantiated for kind {kind}"));
            }
            use crate::errs::{Tok, KT};
            LOCS.with(|l| l.borrow_mut().clear());
            BASE.with(|b| *b.borrow_mut() = (0, 1));
            let v: Vec<KT> = c.inp.iter().map(|t| KT::from_ch(*t)).collect();
            let n = v.len() as i64;
            if kind == "tslice" {
                let mut o = run_kind::<&[KT], Rich<KT>>(&c.g, &v[..], &c.inp, mode)?;
                let dd = val::double_drops();
                let live = val::live_count() as i64;
                drop(v);
                o.double_drops += val::double_drops() - dd;
                // the caller's n tokens were still alive and are gone now
                if live - val::live_count() as i64 != n {
                    o.double_drops += 1;
                }
                Ok(o)
            } else {
                let mut o = run_kind::<_, Rich<KT>>(&c.g, Stream::from_iter(v.into_iter()), &c.inp, mode)?;
                o.live_after += n;
                o.live_with_result += n;
                Ok(o)
            }
        }
        "array" => {
            LOCS.with(|l| l.borrow_mut().clear());
            macro_rules! arr {
                ($n:literal) => {{
                    let a: [char; $n] = <[char; $n]>::try_from(&c.inp[..]).unwrap();
                    BASE.with(|b| *b.borrow_mut() = (a.as_ptr() as usize, std::mem::size_of::<char>()));
                    run_kind::<&[char; $n], Rich<char>>(&c.g, &a, &c.inp, mode)
                }};
            }
            if ety != "rich" {
                return Err(format!("error type {ety} not instantiated for kind array"));
            }
            match c.inp.len() {
                0 => arr!(0),
                1 => arr!(1),
                2 => arr!(2),
                3 => arr!(3),
                4 => arr!(4),
                n => Err(format!("array inputs of length {n} not instantiated")),
            }
        }
        "graph" => {
            if ety != "rich" {
                return Err(format!("error type {ety} not instantiated for kind graph"));
            }
            // the string is the concatenation of the clusters; the crate has to find the cluster boundaries again
            let s: &'static str = Box::leak(crate::errs::expand_clusters(&c.inp).into_boxed_str());
            let mut offs = vec![0usize];
            for t in &c.inp {
                offs.push(offs.last().unwrap() + crate::errs::expand_clusters(&[*t]).len());
            }
            LOCS.with(|l| *l.borrow_mut() = offs);
            run_kind::<&'static chumsky::text::Graphemes, Rich<&'static chumsky::text::Grapheme>>(&c.g, chumsky::text::Graphemes::new(s), &c.inp, mode)
        }
        "stream" | "bstream" | "mapped" | "mstream" | "wctx" | "mapspan" | "io" | "bytes" | "iter" => {
            if ety != "rich" {
                return Err(format!("error type {ety} not instantiated for kind {kind}"));
            }
            LOCS.with(|l| l.borrow_mut().clear());
            BASE.with(|b| *b.borrow_mut() = (0, 1));
            PULLS.with(|p| p.borrow_mut().clear());
            let toks = c.inp.clone();
            let n = toks.len();
            // tokens of the gapped kinds carry their own spans: token i covers 3i+1 .. 3i+2, eoi = 3n .. 3n
            let spanned: Vec<(char, SSpan)> = toks.iter().enumerate().map(|(i, t)| (*t, SSpan::from(3 * i + 1..3 * i + 2))).collect();
            // the end-of-input span is deliberately not zero-width: only its END is where an empty match at the end lies
            let eoi = SSpan::from((3 * n).saturating_sub(1)..3 * n);
            match kind {
                "stream" => run_kind::<_, Rich<char>>(&c.g, Stream::from_iter(Counting { it: toks.clone().into_iter(), idx: 0 }), &c.inp, mode),
                "bstream" => run_kind::<_, Rich<char>>(&c.g, Stream::from_iter(Counting { it: toks.clone().into_iter(), idx: 0 }).boxed(), &c.inp, mode),
                "mapped" => run_kind::<_, Rich<char>>(&c.g, (&spanned[..]).map(eoi, |(t, s): &(char, SSpan)| (t, s)), &c.inp, mode),
                "iter" => run_kind::<_, Rich<char>>(&c.g, chumsky::input::IterInput::new(spanned.clone().into_iter(), eoi), &c.inp, mode),
                "mstream" => run_kind::<_, Rich<char>>(&c.g, Stream::from_iter(spanned.clone().into_iter()).boxed().map(eoi, |(t, s): (char, SSpan)| (t, s)), &c.inp, mode),
                "wctx" => run_kind::<_, Rich<char, CSpan>>(&c.g, (&c.inp[..]).with_context::<CSpan>(0), &c.inp, mode),
                "mapspan" => run_kind::<_, Rich<char, CSpan>>(
                    &c.g,
                    (&c.inp[..]).map_span(|s: SSpan| CSpan::new(100, s.start + 100..s.end + 100)),
                    &c.inp,
                    mode,
                ),
                "io" => {
                    if !toks.iter().all(|t| t.is_ascii()) {
                        return Err("IoInput carries bytes: ASCII tokens only".into());
                    }
                    let bytes: Vec<u8> = toks.iter().map(|t| *t as u8).collect();
                    run_kind::<_, Rich<u8>>(&c.g, IoInput::new(std::io::Cursor::new(bytes)), &c.inp, mode)
                }
                _ => {
                    if !toks.iter().all(|t| t.is_ascii()) {
                        return Err("byte slices: ASCII tokens only".into());
                    }
                    let bytes: Vec<u8> = toks.iter().map(|t| *t as u8).collect();
                    BASE.with(|b| *b.borrow_mut() = (bytes.as_ptr() as usize, 1));
                    run_kind::<&[u8], Rich<u8>>(&c.g, &bytes[..], &c.inp, mode)
                }
            }
        }
        "tree" | "treem" => {
            LOCS.with(|l| l.borrow_mut().clear());
            BASE.with(|b| *b.borrow_mut() = (0, 1));
            if kind == "tree" {
                let tt = crate::tree::parse_tt(&c.inp)?;
                by_ety!(ety, &[crate::tree::TT], crate::tree::TT, &c.g, &tt[..], &c.inp, mode)
            } else {
                let ts = crate::tree::parse_ts(&c.inp)?;
                let n = c.inp.len();
                by_ety!(ety, crate::tree::TsInput, crate::tree::TS, &c.g, crate::tree::ts_input(&ts[..], SSpan::from(3 * n..3 * n)), &c.inp, mode)
            }
        }
        k => Err(format!("unknown input kind {k}")),
    }
}

pub fn run_case(c: &Case) -> Result<Obs, String> {
    run_case_as(c, &c.kind, &c.ety, &c.mode)
}

/// C13: the whole history of a case (its input, then `more`) through one parser value
pub fn run_hist_as(c: &Case, kind: &str, ety: &str, mode: &str, sched: usize) -> Result<Obs, String> {
    val::reset_tracking();
    let mut all: Vec<Vec<char>> = vec![c.inp.clone()];
    all.extend(c.more.iter().cloned());
    LOCS.with(|l| l.borrow_mut().clear());
    BASE.with(|b| *b.borrow_mut() = (0, 1));
    match kind {
        "slice" => {
            if ety != "rich" {
                return Err(format!("error type {ety} not instantiated for kind slice"));
            }
            let inputs: Vec<(&[char], Vec<char>)> = all.iter().map(|v| (&v[..], v.clone())).collect();
            run_kind_hist::<&[char], Rich<char>>(&c.g, inputs, mode, sched)
        }
        "str" => {
            // byte offsets differ from token indices: probes are not used in histories, LOCS stays empty
            if all.iter().any(|v| v.iter().any(|t| !t.is_ascii())) {
                return Err("histories over &str use ASCII tokens".into());
            }
            let strs: Vec<String> = all.iter().map(|v| v.iter().collect()).collect();
            macro_rules! go {
                ($E:ty) => {{
                    let inputs: Vec<(&str, Vec<char>)> = strs.iter().zip(all.iter()).map(|(s, v)| (&s[..], v.clone())).collect();
                    run_kind_hist::<&str, $E>(&c.g, inputs, mode, sched)
                }};
            }
            match ety {
                "rich" => go!(Rich<char>),
                "simple" => go!(Simple<char>),
                "cheap" => go!(Cheap),
                "empty" => go!(EmptyErr),
                e => Err(format!("unknown error type {e}")),
            }
        }
        "stream" => {
            if ety != "rich" {
                return Err(format!("error type {ety} not instantiated for kind stream"));
            }
            let inputs: Vec<_> = all.iter().map(|v| (Stream::from_iter(v.clone().into_iter()).boxed(), v.clone())).collect();
            run_kind_hist::<_, Rich<char>>(&c.g, inputs, mode, sched)
        }
        k => Err(format!("histories are not instantiated for input kind {k}")),
    }
}
