//! Depth sweeps (C12, C20): the clauses about the native stack cannot be expressed in the specification
//! (DESIGN.md section 8).  The specification establishes, for small depths, which inputs each of these
//! grammars accepts (balanced nesting / complete operator chains); here the real crate is run on the same
//! grammars at depths of 10^3 .. 10^6 on a thread with an ordinary stack and must give that answer.
//! A stack overflow kills the process: the driver runs one (grammar, depth) per process.
use crate::ast::G;
use crate::build::{build, X};
use crate::insp::St;
use chumsky::error::Rich;
use chumsky::Parser;
use serde_json::{json, Value as J};

/// the deep grammars, in the AST of the specification (outputs are flat, so that dropping them does not recurse)
pub fn grammar(name: &str) -> Option<J> {
    let paren = |rec: &str| json!([rec, ["ignored", ["delim", ["ornot", ["ref", 1]], ["just", ["("]], ["just", [")"]]]]]);
    Some(match name {
        // nested parentheses: recursive(), and the same through declare / define
        "paren" => paren("rec"),
        "parend" => paren("recd"),
        // mutual recursion between a declared and a direct definition: a b a b ... x
        "mutual" => json!(["recd", ["ignored", ["or", ["then", ["just", ["a"]], ["rec", ["ignored", ["or", ["then", ["just", ["b"]], ["ref", 2]], ["just", ["y"]]]]]], ["just", ["x"]]]]]),
        // right recursion through a boxed self reference
        "rightrec" => json!(["rec", ["ignored", ["or", ["then", ["just", ["a"]], ["boxed", ["ref", 1]]], ["just", ["x"]]]]]),
        // Pratt: a long run of prefix operators, a long right-associative chain, a long postfix run
        "prefix" => json!(["ignored", ["pratt", ["just", ["a"]], [["prefix", 1, ["just", ["-"]]]], "vec"]]),
        "infixr" => json!(["ignored", ["pratt", ["just", ["a"]], [["infixr", 1, ["just", ["^"]]]], "tuple"]]),
        "infixl" => json!(["ignored", ["pratt", ["just", ["a"]], [["infixl", 1, ["just", ["+"]]]], "tuple"]]),
        "postfix" => json!(["ignored", ["pratt", ["just", ["a"]], [["postfix", 1, ["just", ["!"]]]], "vec"]]),
        // plain repetition and a deep chain of memoized recursion (no native recursion per item expected)
        "repeat" => json!(["run", ["rep", ["just", ["a"]], 0, -1]]),
        _ => return None,
    })
}

pub const NAMES: &[&str] = &["paren", "parend", "mutual", "rightrec", "prefix", "infixr", "infixl", "postfix", "repeat"];

/// the input of depth n and whether the grammar accepts it (as the specification says for small n);
/// `broken` removes / appends one token so that the input must be rejected
pub fn input(name: &str, n: usize, broken: bool) -> (String, bool) {
    let mut s = String::new();
    match name {
        "paren" | "parend" => {
            s.extend(std::iter::repeat('(').take(n));
            s.extend(std::iter::repeat(')').take(if broken { n - 1 } else { n }));
        }
        "mutual" => {
            for i in 0..n {
                s.push(if i % 2 == 0 { 'a' } else { 'b' });
            }
            // after an even number of tokens the declared level is current (ends with x), otherwise the inner one (y)
            let end = if n % 2 == 0 { 'x' } else { 'y' };
            s.push(if broken { 'z' } else { end });
        }
        "rightrec" => {
            s.extend(std::iter::repeat('a').take(n));
            s.push(if broken { 'a' } else { 'x' });
        }
        "prefix" => {
            s.extend(std::iter::repeat('-').take(n));
            if !broken {
                s.push('a');
            }
        }
        "infixr" | "infixl" => {
            let op = if name == "infixr" { '^' } else { '+' };
            s.push('a');
            for _ in 0..n {
                s.push(op);
                s.push('a');
            }
            if broken {
                s.push(op);
            }
        }
        "postfix" => {
            s.push('a');
            s.extend(std::iter::repeat('!').take(n));
            if broken {
                s.push('a');
            }
        }
        _ => {
            s.extend(std::iter::repeat('a').take(n));
            if broken {
                s.push('b');
            }
        }
    }
    (s, !broken)
}

/// C12: a second define() of a declared parser is refused with a panic and leaves the first definition in force;
/// clones, boxed copies and drops of a defined parser are harmless
pub fn define_twice() -> J {
    use chumsky::prelude::*;
    use chumsky::recursive::{Indirect, Recursive};
    type E<'a> = chumsky::extra::Err<Rich<'a, char>>;
    let mut decl = Recursive::<Indirect<'_, '_, &str, char, E>>::declare();
    decl.define(just::<_, &str, E>('a').or(just('(').ignore_then(decl.clone()).then_ignore(just(')'))));
    let mut second = decl.clone();
    let refused = std::panic::catch_unwind(std::panic::AssertUnwindSafe(|| second.define(just::<_, &str, E>('b')))).is_err();
    let c1 = decl.clone();
    let b1 = decl.clone().boxed();
    let first_ok = decl.parse("((a))").into_result() == Ok('a') && c1.parse("(a)").into_result() == Ok('a') && b1.parse("a").into_result() == Ok('a');
    let not_replaced = decl.parse("b").has_errors() && second.parse("b").has_errors();
    drop(c1);
    drop(second);
    let still = b1.parse("(a)").into_result() == Ok('a');
    drop(decl);
    let after_drop = b1.parse("((a))").into_result() == Ok('a');
    json!({"g": "define2", "second_define_refused": refused, "first_definition_works": first_ok, "not_replaced": not_replaced,
           "usable_after_clones_dropped": still && after_drop, "agrees": refused && first_ok && not_replaced && still && after_drop})
}

pub fn run(name: &str, depth: usize, broken: bool, stack_mib: usize) -> Result<J, String> {
    if name == "define2" {
        return Ok(define_twice());
    }
    let gj = grammar(name).ok_or_else(|| format!("unknown deep grammar {name}"))?;
    let g = G::from_json(&gj)?;
    let (text, expect_ok) = input(name, depth, broken);
    let t0 = std::time::Instant::now();
    let (tx, rx) = std::sync::mpsc::channel();
    let th = std::thread::Builder::new()
        .stack_size(stack_mib << 20)
        .spawn(move || {
            let p = build::<&str, Rich<char>>(&g, &vec![]).expect("deep grammar builds");
            let mut st = St::default();
            let r = p.parse_with_state(&text[..], &mut st);
            let ok = r.has_output() && !r.has_errors();
            let nerr = r.errors().count();
            let first = r.errors().next().map(|e| (e.span().start, e.span().end));
            tx.send((ok, nerr, first, st.count)).ok();
            // the parser and the result are dropped here, on this thread
        })
        .map_err(|e| e.to_string())?;
    let res = rx.recv_timeout(std::time::Duration::from_secs(600));
    let _ = th.join();
    match res {
        Ok((ok, nerr, first, seen)) => Ok(json!({"g": name, "depth": depth, "broken": broken, "ok": ok, "expected_ok": expect_ok, "errors": nerr,
            "first_error": first.map(|(s, e)| json!([s, e])), "tokens_seen": seen, "ms": t0.elapsed().as_millis() as u64,
            "agrees": ok == expect_ok && (ok || nerr >= 1)})),
        Err(_) => Ok(json!({"g": name, "depth": depth, "broken": broken, "timeout_or_panic": true, "agrees": false})),
    }
}
