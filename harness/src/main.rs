mod ast;
mod build;
mod errs;
mod insp;
mod replay;
mod run;
mod val;

use serde_json::json;

fn arg(args: &[String], name: &str) -> Option<String> {
    args.iter().position(|a| a == name).and_then(|i| args.get(i + 1).cloned())
}

fn main() {
    let args: Vec<String> = std::env::args().collect();
    // panics of the code under test are data (caught per case); keep stderr quiet
    std::panic::set_hook(Box::new(|_| {}));
    let cmd = args.get(1).cloned().unwrap_or_default();
    // run on a big stack: deep grammars recurse in the builder, not only in chumsky
    let child = std::thread::Builder::new().stack_size(512 << 20).spawn(move || real_main(cmd, args)).unwrap();
    let code = child.join().unwrap_or(2);
    std::process::exit(code);
}

fn real_main(cmd: String, args: Vec<String>) -> i32 {
    match cmd.as_str() {
        "replay" => {
            let prop = arg(&args, "--prop").unwrap_or("ALL".into());
            let file = arg(&args, "--file").expect("--file");
            let out = arg(&args, "--out");
            match replay::replay_file(&file, &prop, 20) {
                Ok(st) => {
                    let j = json!({
                        "prop": prop, "cases": st.cases, "behaviours": st.behaviours, "runs": st.runs,
                        "clean": st.clean, "kf": st.kf, "kf_samples": st.kf_samples, "n_mismatch": st.n_mismatch,
                        "mismatches": st.mismatches, "unsupported": st.unsupported, "nontrivial": st.nontrivial,
                        "samples": st.samples,
                    });
                    if let Some(o) = out {
                        std::fs::write(&o, serde_json::to_string_pretty(&j).unwrap()).unwrap();
                    }
                    println!("{}", serde_json::to_string(&json!({"prop": j["prop"], "cases": j["cases"], "behaviours": j["behaviours"], "runs": j["runs"],
                        "clean": j["clean"], "kf": j["kf"], "n_mismatch": j["n_mismatch"], "unsupported": j["unsupported"]})).unwrap());
                    if st.n_mismatch > 0 {
                        1
                    } else {
                        0
                    }
                }
                Err(e) => {
                    eprintln!("replay error: {e}");
                    2
                }
            }
        }
        "one" => {
            // cvh one '<case json>' : run one case and print the full observation
            let j: serde_json::Value = serde_json::from_str(&args[2]).expect("case json");
            let c = run::Case::from_json(&j).expect("case");
            match run::run_case(&c) {
                Ok(o) => {
                    println!("{}", o.to_json());
                    0
                }
                Err(e) => {
                    eprintln!("{e}");
                    2
                }
            }
        }
        _ => {
            eprintln!("usage: cvh replay --prop Cxx --file F [--out O] | one <case>");
            2
        }
    }
}
