mod ast;
mod build;
mod deep;
mod errs;
mod gen;
mod inputs;
mod insp;
mod reccell;
mod replay;
mod run;
mod stat;
mod rx;
mod tree;
mod val;

use serde_json::json;

thread_local! {
    /// lower bound on the length of recorded inputs (inputs longer than Stream's 512-token batch, C10)
    static MINLEN: std::cell::Cell<usize> = std::cell::Cell::new(0);
}

fn arg(args: &[String], name: &str) -> Option<String> {
    args.iter().position(|a| a == name).and_then(|i| args.get(i + 1).cloned())
}

fn main() {
    let args: Vec<String> = std::env::args().collect();
    // panics of the code under test are data (caught per case); keep stderr quiet
    if std::env::var("VERIF_SHOW_PANICS").is_err() {
        std::panic::set_hook(Box::new(|_| {}));
    }
    let cmd = args.get(1).cloned().unwrap_or_default();
    // run on a big stack: deep grammars recurse in the builder, not only in chumsky
    let child = std::thread::Builder::new().stack_size(512 << 20).spawn(move || real_main(cmd, args)).unwrap();
    let code = child.join().unwrap_or(2);
    std::process::exit(code);
}

fn real_main(cmd: String, args: Vec<String>) -> i32 {
    match cmd.as_str() {
        "replay" => {
            let prop = arg(&args, "--prop").unwrap_or("ALL".into());
            let file = arg(&args, "--file").expect("--file");
            let out = arg(&args, "--out");
            match replay::replay_file(&file, &prop, 20) {
                Ok(st) => {
                    let j = json!({
                        "prop": prop, "cases": st.cases, "behaviours": st.behaviours, "runs": st.runs,
                        "clean": st.clean, "kf": st.kf, "kf_samples": st.kf_samples, "kf_cases": st.kf_cases, "n_mismatch": st.n_mismatch,
                        "mismatches": st.mismatches, "unsupported": st.unsupported, "nontrivial": st.nontrivial,
                        "samples": st.samples,
                    });
                    if let Some(o) = out {
                        std::fs::write(&o, serde_json::to_string_pretty(&j).unwrap()).unwrap();
                    }
                    let (used, of) = insp::MAX_USED.with(|m| m.get());
                    println!("{}", serde_json::to_string(&json!({"prop": j["prop"], "cases": j["cases"], "behaviours": j["behaviours"], "runs": j["runs"],
                        "clean": j["clean"], "kf": j["kf"], "n_mismatch": j["n_mismatch"], "unsupported": j["unsupported"], "max_steps_used": [used, of]})).unwrap());
                    if st.n_mismatch > 0 {
                        1
                    } else {
                        0
                    }
                }
                Err(e) => {
                    eprintln!("replay error: {e}");
                    2
                }
            }
        }
        "record" => {
            // cvh record --prop Cxx --family F --n N --seed S --size K --len L --out cases.ndjson
            let prop = arg(&args, "--prop").unwrap_or("ALL".into());
            let fam = arg(&args, "--family").unwrap_or("peg".into());
            let n: usize = arg(&args, "--n").and_then(|x| x.parse().ok()).unwrap_or(1000);
            let seed: u64 = arg(&args, "--seed").and_then(|x| x.parse().ok()).unwrap_or(1);
            let size: usize = arg(&args, "--size").and_then(|x| x.parse().ok()).unwrap_or(8);
            let len: usize = arg(&args, "--len").and_then(|x| x.parse().ok()).unwrap_or(8);
            let kinds: Vec<String> = arg(&args, "--kinds").unwrap_or("str".into()).split(',').map(|s| s.to_string()).collect();
            let etys: Vec<String> = arg(&args, "--etys").unwrap_or("rich".into()).split(',').map(|s| s.to_string()).collect();
            let out = arg(&args, "--out").expect("--out");
            let minlen: usize = arg(&args, "--minlen").and_then(|x| x.parse().ok()).unwrap_or(0);
            MINLEN.with(|m| m.set(minlen));
            match record(&prop, &fam, n, seed, size, len, &kinds, &etys, &out) {
                Ok(k) => {
                    println!("{}", json!({"recorded": k}));
                    0
                }
                Err(e) => {
                    eprintln!("record error: {e}");
                    2
                }
            }
        }
        "deep" => {
            // cvh deep --g NAME --depth N [--broken] [--stack MiB]: one deep-nesting run (C12 / C20), one JSON line
            let name = arg(&args, "--g").unwrap_or("paren".into());
            let depth: usize = arg(&args, "--depth").and_then(|x| x.parse().ok()).unwrap_or(1000);
            let stack: usize = arg(&args, "--stack").and_then(|x| x.parse().ok()).unwrap_or(2);
            let broken = args.iter().any(|a| a == "--broken");
            match deep::run(&name, depth, broken, stack) {
                Ok(j) => {
                    println!("{j}");
                    if j["agrees"].as_bool() == Some(true) {
                        0
                    } else {
                        1
                    }
                }
                Err(e) => {
                    eprintln!("{e}");
                    2
                }
            }
        }
        "threads" => {
            // cvh threads --n N: C13, OS threads sharing one statically typed parser through Arc<dyn Parser + Send + Sync>:
            // every thread must get, for every input of the pool, the result sequential use gives
            let n: usize = arg(&args, "--n").and_then(|x| x.parse().ok()).unwrap_or(4);
            let rounds: usize = arg(&args, "--rounds").and_then(|x| x.parse().ok()).unwrap_or(3);
            let mut pool: Vec<(String, Vec<char>)> = vec![];
            let alphabet = ['a', 'b', '\u{e9}'];
            let mut last: Vec<Vec<char>> = vec![vec![]];
            pool.push((String::new(), vec![]));
            for _ in 0..3 {
                let mut next = vec![];
                for s in &last {
                    for c in alphabet {
                        let mut t = s.clone();
                        t.push(c);
                        next.push(t);
                    }
                }
                for t in &next {
                    pool.push((t.iter().collect(), t.clone()));
                }
                last = next;
            }
            let mut bad = vec![];
            let mut parses = 0usize;
            for &idx in stat::SYNC {
                let seq: Vec<(bool, String, String)> = pool
                    .iter()
                    .map(|(text, toks)| {
                        let o = stat::run_static(idx, &text[..], toks, "E", false).unwrap();
                        (o.ok, o.out.to_string(), format!("{:?}", o.errs))
                    })
                    .collect();
                for threads in [2usize, n] {
                    let res = stat::run_static_threads(idx, &pool, threads, rounds).unwrap();
                    parses += threads * rounds * pool.len();
                    for (t, r) in res.iter().enumerate() {
                        for (j, key) in r.iter().enumerate() {
                            if *key != seq[j] && bad.len() < 10 {
                                bad.push(json!({"grammar": stat::ASTS[idx], "input": pool[j].0, "threads": threads, "thread": t, "sequential": format!("{:?}", seq[j]), "concurrent": format!("{key:?}")}));
                            }
                        }
                    }
                }
            }
            println!("{}", json!({"parsers": stat::SYNC.len(), "pool": pool.len(), "parses": parses, "threads": n, "disagreements": bad}));
            if bad.is_empty() {
                0
            } else {
                1
            }
        }
        "regex" => {
            let len: usize = arg(&args, "--len").and_then(|x| x.parse().ok()).unwrap_or(3);
            let j = rx::run(len);
            println!("{j}");
            if j["disagreements"].as_array().map_or(true, |a| a.is_empty()) {
                0
            } else {
                1
            }
        }
        "inputs" => {
            // cvh inputs --file <TLC log with INPUTS lines>: call sequences of spec/Inputs.tla on real Stream / IoInput values
            let file = arg(&args, "--file").expect("--file");
            match inputs::replay_file(&file) {
                Ok(st) => {
                    println!("{}", json!({"sequences": st.sequences, "runs": st.runs, "calls": st.calls, "n_mismatch": st.n_mismatch, "mismatches": st.mismatches}));
                    if st.n_mismatch > 0 {
                        1
                    } else {
                        0
                    }
                }
                Err(e) => {
                    eprintln!("inputs error: {e}");
                    2
                }
            }
        }
        "reccell" => {
            // cvh reccell --file <TLC log with RECCELL lines>: handle histories of spec/RecCell.tla on real Recursive values
            let file = arg(&args, "--file").expect("--file");
            match reccell::replay_file(&file) {
                Ok(st) => {
                    println!("{}", json!({"histories": st.histories, "steps": st.steps, "parses": st.parses, "n_mismatch": st.n_mismatch, "mismatches": st.mismatches}));
                    if st.n_mismatch > 0 {
                        1
                    } else {
                        0
                    }
                }
                Err(e) => {
                    eprintln!("reccell error: {e}");
                    2
                }
            }
        }
        "deepcases" => {
            // cvh deepcases --prop Cxx --out F: the deep grammars at small depths, run in the real crate and recorded
            // like `record` does, so that the specification validates them (and with them the closed form the sweep uses)
            use std::io::Write;
            let prop = arg(&args, "--prop").unwrap_or("C12".into());
            let out = arg(&args, "--out").expect("--out");
            let mask = replay::mask_for(&prop);
            let mut w = std::io::BufWriter::new(std::fs::File::create(out).unwrap());
            let mut n = 0;
            for name in deep::NAMES {
                for d in 1..5usize {
                    for broken in [false, true] {
                        let (text, expect_ok) = deep::input(name, d, broken);
                        let inp: Vec<String> = text.chars().map(val::char_to_tok).collect();
                        let g = deep::grammar(name).unwrap();
                        for mode in ["E", "C"] {
                            let cj = json!({"g": g, "inp": inp, "kind": "str", "ety": "rich", "mode": mode});
                            let c = run::Case::from_json(&cj).unwrap();
                            let o = run::run_case(&c).unwrap();
                            let oj = o.to_json();
                            let assertion = if o.ok != expect_ok { Some(format!("deep grammar {name} at depth {d} (broken={broken}): accepted={} but the closed form says {}", o.ok, expect_ok)) } else { None };
                            let rec = json!({"g": g, "inp": inp, "kind": "str", "ety": "rich", "mode": mode, "assertion": assertion,
                                "res": {"ok": oj["ok"], "out": oj["out"], "errs": oj["errs"], "panic": oj["panic"], "insp": oj["insp"], "leaked": oj["leaked"]},
                                "obs": oj["obs"], "mask": mask.to_json()});
                            writeln!(w, "{}", rec).unwrap();
                            n += 1;
                        }
                    }
                }
            }
            println!("{}", json!({"recorded": n}));
            0
        }
        "gen" => {
            // cvh gen --family F --n N --seed S --size K: random well-formed grammars of a family, one JSON per line
            let fam = arg(&args, "--family").unwrap_or("peg".into());
            let n: usize = arg(&args, "--n").and_then(|x| x.parse().ok()).unwrap_or(10);
            let seed: u64 = arg(&args, "--seed").and_then(|x| x.parse().ok()).unwrap_or(1);
            let size: usize = arg(&args, "--size").and_then(|x| x.parse().ok()).unwrap_or(6);
            let f = gen::family(&fam);
            let mut r = gen::Rng::new(seed);
            for _ in 0..n {
                let budget = 2 + r.below(size);
                println!("{}", gen::gen_wf(&mut r, &f, budget));
            }
            0
        }
        "one" => {
            // cvh one '<case json>' : run one case and print the full observation
            let j: serde_json::Value = serde_json::from_str(&args[2]).expect("case json");
            let c = run::Case::from_json(&j).expect("case");
            match run::run_case(&c) {
                Ok(o) => {
                    println!("{}", o.to_json());
                    0
                }
                Err(e) => {
                    eprintln!("{e}");
                    2
                }
            }
        }
        _ => {
            eprintln!("usage: cvh replay --prop Cxx --file F [--out O] | one <case>");
            2
        }
    }
}

#[allow(clippy::too_many_arguments)]
fn record(prop: &str, fam: &str, n: usize, seed: u64, size: usize, len: usize, kinds: &[String], etys: &[String], out: &str) -> Result<usize, String> {
    use std::io::Write;
    let f = gen::family(fam);
    let mut r = gen::Rng::new(seed);
    let mask = replay::mask_for(prop);
    let mut w = std::io::BufWriter::new(std::fs::File::create(out).map_err(|e| e.to_string())?);
    let mut k = 0;
    while k < n {
        let budget = 2 + r.below(size);
        let g = gen::gen_wf(&mut r, &f, budget);
        let inp = gen::gen_input_min(&mut r, &f, MINLEN.with(|m| m.get()), len, fam == "nst");
        let kind = r.pick(kinds).clone();
        let ety = r.pick(etys).clone();
        let mode = if r.chance(1, 2) { "E" } else { "C" };
        // C13: a history of up to 5 further parses through the same parser value
        let more: Vec<Vec<&str>> = if prop == "C13" { (0..1 + r.below(5)).map(|_| gen::gen_input(&mut r, &f, len, fam == "nst")).collect() } else { vec![] };
        let cj = json!({"g": g, "inp": inp, "kind": kind, "ety": ety, "mode": mode, "more": more});
        let c = run::Case::from_json(&cj)?;
        let o = match run::run_case(&c) {
            Ok(o) => o,
            Err(_) => continue, // combination not supported by this input kind
        };
        let oj = o.to_json();
        // the real-only assertions of the property (parse vs check, erasure, cross-kind, drops, ...)
        let all = |kind: &str, ety: &str, mode: &str| run::run_case_as(&c, kind, ety, mode).ok();
        let assertion = replay::real_asserts(prop, &c, &o, &all);
        let mut rec = json!({"g": g, "inp": inp, "kind": kind, "ety": ety, "mode": mode, "assertion": assertion,
            "res": {"ok": oj["ok"], "out": oj["out"], "errs": oj["errs"], "panic": oj["panic"], "insp": oj["insp"], "leaked": oj["leaked"]},
            "obs": oj["obs"], "mask": mask.to_json()});
        if prop == "C13" {
            rec["more"] = json!(more);
            rec["past"] = oj["past"].clone();
        }
        writeln!(w, "{}", rec).map_err(|e| e.to_string())?;
        k += 1;
    }
    Ok(k)
}
