//! Spec -> implementation: every behaviour TLC explored (one REPLAY line each) is executed in the
//! real crate and compared under the projection the property pins.
use crate::run::{run_case_as, Case, Obs};
use serde_json::{json, Value as J};
use std::collections::BTreeMap;
use std::io::BufRead;

/// sets arrive from TLC as arrays in arbitrary order
fn norm_err(e: &J) -> J {
    let mut exp: Vec<String> = e["exp"].as_array().map(|a| a.iter().map(|x| x.as_str().unwrap_or("").to_string()).collect()).unwrap_or_default();
    exp.sort();
    exp.dedup();
    json!({"s": e["s"], "e": e["e"], "found": e["found"], "exp": exp, "cust": e["cust"], "ctxs": e["ctxs"]})
}
fn norm_errs(errs: &J) -> Vec<J> {
    errs.as_array().map(|a| a.iter().map(norm_err).collect()).unwrap_or_default()
}

/// Which fields of an observation a property pins.  The same mask is written into recorded
/// cases so that the TLA+ side (MC.tla Matches) compares exactly the same fields.
#[derive(Clone, Copy, Debug)]
pub struct Mask {
    pub out: bool,
    pub errs: &'static str, // "all" | "ifok" | "last" | "spans" | "none"
    pub obs: &'static str,  // "none" | "ext" | "insp" | "all"
    pub insp: bool,
    pub leak: bool, // C19: number of tracked values lost without being dropped
}

pub fn mask_for(prop: &str) -> Mask {
    match prop {
        "ALL" => Mask { out: true, errs: "all", obs: "all", insp: true, leak: true },
        // acceptance, value, how much each sub-parser consumed (probe extents)
        "C01" | "C02" => Mask { out: true, errs: "none", obs: "ext", insp: false, leak: false },
        // acceptance and whether the result is error-free (C03: output/error consistency; C20: failure is always reported
        // through the error list)
        "C03" | "C20" => Mask { out: false, errs: "empty", obs: "none", insp: false, leak: false },
        // acceptance, outputs and how many tracked values were lost (the model says: none, except at listed defect sites)
        "C19" => Mask { out: true, errs: "none", obs: "none", insp: false, leak: true },
        // check vs parse is decided on the real crate (real_asserts); against the mode-free reference the model
        // pins acceptance, the output and the complete error list in BOTH modes, so that a combinator whose
        // value-eliding path differs from its value-building one is seen even when parse and check agree
        "C04" => Mask { out: true, errs: "all", obs: "none", insp: false, leak: false },
        "C05" => Mask { out: false, errs: "ifok", obs: "none", insp: false, leak: false },
        "C06" => Mask { out: false, errs: "last", obs: "none", insp: false, leak: false },
        // text parsers: acceptance and the matched slices
        "C14" => Mask { out: true, errs: "none", obs: "none", insp: false, leak: false },
        "C07" => Mask { out: true, errs: "none", obs: "none", insp: false, leak: false },
        "C18" => Mask { out: true, errs: "none", obs: "insp", insp: true, leak: false },
        // memoization is judged against the memo-free grammar on the real crate (real_asserts);
        // the model contributes acceptance and outputs
        "C11" => Mask { out: true, errs: "all", obs: "none", insp: false, leak: false },
        // representation independence is judged on the real crate, kind against kind (real_asserts);
        // the model contributes acceptance and outputs per kind
        "C10" => Mask { out: true, errs: "none", obs: "none", insp: false, leak: false },
        // C08, C12, C13, C15, C16, C17: acceptance, outputs, errors
        _ => Mask { out: true, errs: "all", obs: "none", insp: false, leak: false },
    }
}

impl Mask {
    pub fn to_json(&self) -> J {
        json!({"out": self.out, "errs": self.errs, "obs": self.obs, "insp": self.insp, "leak": self.leak})
    }
}

/// The projection of an observation {ok,out,errs,panic,insp,obs} under a mask.
pub fn proj_mask(m: &Mask, mode: &str, o: &J) -> J {
    let ok = o["ok"].as_bool().unwrap_or(false);
    let panic = o["panic"].as_bool().unwrap_or(false);
    let errs = norm_errs(&o["errs"]);
    let out = if m.out && ok && mode == "E" { o["out"].clone() } else { J::Null };
    let n = match m.obs {
        "ext" => 2,
        "insp" => 3,
        "all" => 4,
        _ => 0,
    };
    let obs: Vec<J> = if n == 0 {
        vec![]
    } else {
        o["obs"].as_array().map(|a| a.iter().map(|e| J::Array((0..n).map(|k| e[k].clone()).collect())).collect()).unwrap_or_default()
    };
    let errs = match m.errs {
        "all" => json!(errs),
        "ifok" => {
            if ok {
                json!(errs)
            } else {
                J::Null
            }
        }
        "spans" => json!(errs.iter().map(|e| json!([e["s"], e["e"]])).collect::<Vec<_>>()),
        "empty" => json!(errs.is_empty()),
        "last" => {
            if ok || panic {
                J::Null
            } else {
                let last = errs.last().cloned().unwrap_or(J::Null);
                json!({"s": last["s"], "e": last["e"], "found": last["found"], "exp": last["exp"], "cust": last["cust"]})
            }
        }
        _ => J::Null,
    };
    let insp = if m.insp && ok { o["insp"].clone() } else { J::Null };
    let leak = if m.leak && !panic { o["leaked"].clone() } else { J::Null };
    // C13: the earlier parses of a history, each projected like a parse of its own
    let past: Vec<J> = o["past"].as_array().map(|a| a.iter().map(|x| proj_mask(m, mode, x)).collect()).unwrap_or_default();
    json!({"ok": ok, "panic": panic, "out": out, "errs": errs, "obs": obs, "insp": insp, "leaked": leak, "past": past})
}

pub fn proj(prop: &str, mode: &str, o: &J) -> J {
    proj_mask(&mask_for(prop), mode, o)
}

const OPS: &[&str] = &[
    "just", "any", "oneof", "noneof", "sel", "end", "empty", "cust", "ext", "extsub", "probe", "cfgjust", "cfgjustr", "then", "ithen", "theni", "delim", "padded", "group",
    "grouparr", "or", "choice", "choicev", "ornot", "not", "andis", "rewind", "map", "to", "ignored", "filter", "trymap", "trymapw", "validate",
    "mw", "tospan", "toslice", "boxed", "lazy", "collect", "exact", "run", "foldl", "foldr", "foldlw", "foldrw", "recover", "label", "maperr",
    "memo", "rec", "recd", "ref", "let", "var", "withctx", "thenctx", "ignctx", "mapctx", "withstate", "nested", "tree", "pratt", "rep", "sep", "enum", "cfgrep", "cfgrepmin", "cfgrepmax", "cfgreptry",
    "via", "skipuntil", "retry", "nesteddelim", "mws", "prog", "intoiter", "anyr", "selr", "text", "tpadded", "sleq", "newline",
];
fn is_node(j: &J) -> bool {
    j.as_array().and_then(|a| a.first()).and_then(|o| o.as_str()).map_or(false, |o| OPS.contains(&o))
}
fn node_op(j: &J) -> &str {
    j[0].as_str().unwrap_or("")
}
/// rebuild a node with `f` applied to every child node (also inside child lists)
fn map_kids(j: &J, f: &dyn Fn(&J) -> J) -> J {
    match j {
        J::Array(a) if is_node(j) => {
            // a context value (withctx) is a value, not a grammar: leave it alone
            let skip_val = node_op(j) == "withctx";
            J::Array(
                a.iter()
                    .enumerate()
                    .map(|(i, x)| {
                        if i == 0 || (skip_val && i == 1) {
                            x.clone()
                        } else if is_node(x) {
                            f(x)
                        } else if let J::Array(xs) = x {
                            if xs.iter().all(is_node) && !xs.is_empty() {
                                J::Array(xs.iter().map(|y| f(y)).collect())
                            } else {
                                x.clone()
                            }
                        } else {
                            x.clone()
                        }
                    })
                    .collect(),
            )
        }
        _ => j.clone(),
    }
}
/// remove every node whose operator is in `ops` (memo / label / maperr), keeping its operand
pub fn erase(j: &J, ops: &[&str]) -> J {
    if is_node(j) && ops.contains(&node_op(j)) {
        erase(&j[1], ops)
    } else {
        map_kids(j, &|k| erase(k, ops))
    }
}
pub fn has_op(j: &J, ops: &[&str]) -> bool {
    if !is_node(j) {
        return match j {
            J::Array(xs) => xs.iter().any(|x| has_op(x, ops)),
            _ => false,
        };
    }
    ops.contains(&node_op(j)) || j.as_array().unwrap().iter().skip(1).any(|x| has_op(x, ops))
}
/// substitute `rep` for the reference to the `depth`-th enclosing rec
fn subst_ref(j: &J, depth: u64, rep: &J) -> J {
    if is_node(j) {
        match node_op(j) {
            "ref" if j[1].as_u64() == Some(depth) => return rep.clone(),
            "rec" | "recd" => return json!([node_op(j), subst_ref(&j[1], depth + 1, rep)]),
            _ => {}
        }
    }
    map_kids(j, &|k| subst_ref(k, depth, rep))
}
/// expand every recursive definition k levels deep (C12); below that an always-failing parser
pub fn unroll(j: &J, k: usize) -> J {
    if is_node(j) && (node_op(j) == "rec" || node_op(j) == "recd") {
        let body = &j[1];
        let mut u = json!(["cust", 0, false]);
        for _ in 0..k {
            u = subst_ref(body, 1, &u);
        }
        return unroll(&u, k);
    }
    map_kids(j, &|x| unroll(x, k))
}

/// offset of the input kind -> token index (the documented re-basing of spans)
pub fn off_to_idx(o: usize, kind: &str, toks: &[char]) -> i64 {
    match kind {
        "str" => crate::run::str_offsets(toks).iter().position(|x| *x == o).map_or(-1, |i| i as i64),
        "graph" => {
            let mut offs = vec![0usize];
            for t in toks {
                offs.push(offs.last().unwrap() + crate::errs::expand_clusters(&[*t]).len());
            }
            offs.iter().position(|x| *x == o).map_or(-1, |i| i as i64)
        }
        "mapped" | "mstream" | "iter" => {
            if o == 3 * toks.len() {
                toks.len() as i64
            } else if o % 3 == 1 {
                (o / 3) as i64
            } else if o % 3 == 2 {
                (o / 3 + 1) as i64
            } else {
                -1
            }
        }
        _ => o as i64,
    }
}
fn rebase_val(v: &J, kind: &str, toks: &[char]) -> J {
    match v {
        J::Array(a) if !a.is_empty() => match a[0].as_str() {
            Some("Sp") | Some("Sl") => json!([a[0], off_to_idx(a[1].as_u64().unwrap_or(0) as usize, kind, toks), off_to_idx(a[2].as_u64().unwrap_or(0) as usize, kind, toks)]),
            Some("W") => json!(["W", rebase_val(&a[1], kind, toks), off_to_idx(a[2].as_u64().unwrap_or(0) as usize, kind, toks),
                                off_to_idx(a[3].as_u64().unwrap_or(0) as usize, kind, toks), a[4], a[5]]),
            _ => J::Array(a.iter().map(|x| rebase_val(x, kind, toks)).collect()),
        },
        _ => v.clone(),
    }
}

pub struct ReplayStats {
    pub cases: usize,
    pub behaviours: usize,
    pub runs: usize,
    pub clean: usize,
    pub nontrivial: usize,
    pub kf: BTreeMap<String, usize>,
    pub kf_samples: BTreeMap<String, J>,
    /// the cases behind the hits of layout-dependent sites (memo_alias): the driver accepts only the witnessed ones
    pub kf_cases: BTreeMap<String, Vec<String>>,
    pub mismatches: Vec<J>,
    pub n_mismatch: usize,
    pub unsupported: BTreeMap<String, usize>,
    pub samples: Vec<J>,
}

/// real-only assertions that belong to a property (things the model cannot see)
/// the same case with every node of the grammar cloned at construction (the original dropped): the combinators'
/// Clone impls must reproduce every setting (bounds, flags, operator tables)
fn clone_built_differs(case: &Case, real: &Obs) -> Option<String> {
    if real.panic.is_some() || matches!(case.kind.as_str(), "static" | "staticc") {
        return None;
    }
    crate::build::CLONE_NODES.with(|c| c.set(true));
    let o = run_case_as(case, &case.kind, &case.ety, &case.mode);
    crate::build::CLONE_NODES.with(|c| c.set(false));
    let o = o.ok()?;
    if o.ok != real.ok || o.out != real.out || o.errs != real.errs {
        return Some(format!("a parser built from clones of its parts behaves differently: accepts={} out={} errs={:?} vs accepts={} out={} errs={:?}",
            o.ok, o.out, o.errs, real.ok, real.out, real.errs));
    }
    None
}

/// the same case with every library combinator type-erased right where it is made (entered through go_emit / go_check,
/// the entry points of dynamic dispatch, instead of the generic go::<M>): both ways in must behave alike
fn inner_boxed_differs(case: &Case, real: &Obs) -> Option<String> {
    if real.panic.is_some() || matches!(case.kind.as_str(), "static" | "staticc") || !case.more.is_empty() {
        return None;
    }
    crate::build::BOX_INNER.with(|c| c.set(true));
    let o = run_case_as(case, &case.kind, &case.ety, &case.mode);
    crate::build::BOX_INNER.with(|c| c.set(false));
    let o = o.ok()?;
    if o.ok != real.ok || o.out != real.out || o.errs != real.errs {
        return Some(format!("a combinator entered through its type-erased entry point (boxed directly) behaves differently: accepts={} out={} errs={:?} vs accepts={} out={} errs={:?}",
            o.ok, o.out, o.errs, real.ok, real.out, real.errs));
    }
    None
}

pub fn real_asserts(prop: &str, case: &Case, real: &Obs, all: &dyn Fn(&str, &str, &str) -> Option<Obs>) -> Option<String> {
    if matches!(prop, "C02" | "C09" | "C15" | "C08") {
        if let Some(e) = clone_built_differs(case, real) {
            return Some(e);
        }
    }
    if matches!(prop, "C01" | "C02" | "C04" | "C07" | "C13" | "C15" | "C14") {
        if let Some(e) = inner_boxed_differs(case, real) {
            return Some(e);
        }
    }
    // C08: "an error-free result never contains recovered output" is read off the result the way callers do
    if prop == "C08" && real.panic.is_none() && case.more.is_empty() && real.has_errors && real.result_ok {
        return Some("into_result() is Ok although the result carries errors (a recovered output passes for an error-free one)".into());
    }
    match prop {
        "C03" => {
            // output/error consistency of the real ParseResult
            if real.panic.is_some() {
                return None;
            }
            if !real.has_output && !real.has_errors {
                return Some("no output and no errors".into());
            }
            if real.has_errors && real.result_ok {
                return Some("into_result is Ok although errors are present".into());
            }
            if !real.has_errors && !real.has_output {
                return Some("error-free result without output".into());
            }
            if !real.has_errors && !real.result_ok {
                return Some("error-free result with output converts to Err".into());
            }
            None
        }
        "C04" => {
            // check(input) vs parse(input) on the real crate
            let p = all(&case.kind, &case.ety, "E")?;
            let c = all(&case.kind, &case.ety, "C")?;
            if p.panic.is_some() || c.panic.is_some() {
                return None;
            }
            if p.ok != c.ok {
                return Some(format!("parse accepts={} but check accepts={}", p.ok, c.ok));
            }
            if p.errs != c.errs {
                return Some(format!("parse errors {:?} differ from check errors {:?}", p.errs, c.errs));
            }
            None
        }
        "C06" => {
            if real.ok || real.panic.is_some() {
                return None;
            }
            // same span under Cheap, Simple and Rich
            let mut spans = vec![];
            for ety in ["rich", "simple", "cheap"] {
                if let Some(o) = all(&case.kind, ety, &case.mode) {
                    if let Some(e) = o.errs.last() {
                        spans.push((ety, e.s, e.e));
                    }
                }
            }
            if spans.windows(2).any(|w| (w[0].1, w[0].2) != (w[1].1, w[1].2)) {
                return Some(format!("error types disagree on the span: {:?}", spans));
            }
            None
        }
        "C11" | "C17" | "C12" => {
            if real.panic.is_some() {
                return None;
            }
            // the decorated / recursive grammar against its erasure / unrolling, both on the real crate
            let plain = match prop {
                "C11" => {
                    if !has_op(&case.gj, &["memo"]) || has_op(&case.gj, &["rec", "recd"]) {
                        return None;
                    }
                    erase(&case.gj, &["memo"])
                }
                "C17" => {
                    if !has_op(&case.gj, &["label", "maperr"]) {
                        return None;
                    }
                    erase(&case.gj, &["label", "maperr"])
                }
                _ => {
                    if !has_op(&case.gj, &["rec", "recd"]) || has_op(&case.gj, &["memo"]) {
                        return None;
                    }
                    unroll(&case.gj, case.inp.len() + 1)
                }
            };
            let mut cj = case.to_json();
            cj["g"] = plain.clone();
            let pc = Case::from_json(&cj).ok()?;
            let po = run_case_as(&pc, &case.kind, &case.ety, &case.mode).ok()?;
            if po.panic.is_some() {
                return None;
            }
            if po.ok != real.ok {
                return Some(format!("acceptance differs from the plain grammar {plain}: {} vs {}", real.ok, po.ok));
            }
            if po.out != real.out {
                return Some(format!("output differs from the plain grammar {plain}: {} vs {}", real.out, po.out));
            }
            if prop == "C17" {
                let spans = |o: &Obs| o.errs.iter().map(|e| (e.s, e.e)).collect::<Vec<_>>();
                if spans(&po) != spans(real) {
                    return Some(format!("error count/spans differ from the undecorated grammar {plain}: {:?} vs {:?}", spans(real), spans(&po)));
                }
            } else if po.errs != real.errs {
                return Some(format!("errors differ from the plain grammar {plain}: {:?} vs {:?}", real.errs, po.errs));
            }
            None
        }
        "C10" => {
            if real.panic.is_some() {
                return None;
            }
            // a Stream pulls every item at most once, in order
            if real.pulls.iter().enumerate().any(|(i, p)| i != *p) {
                return Some(format!("Stream pulled items out of order or twice: {:?}", real.pulls));
            }
            if case.kind == "slice" {
                return None;
            }
            // same acceptance, output and error positions as the plain slice, modulo span re-basing
            let r = all("slice", &case.ety, &case.mode)?;
            if r.panic.is_some() {
                return None;
            }
            if r.ok != real.ok {
                return Some(format!("{} accepts={} but slice accepts={}", case.kind, real.ok, r.ok));
            }
            let a = rebase_val(&real.out, &case.kind, &case.inp);
            let b = rebase_val(&r.out, "slice", &case.inp);
            if a != b {
                return Some(format!("output under {} is {} but {} under slice (spans re-based to token indices)", case.kind, a, b));
            }
            let pos = |o: &Obs, k: &str| o.errs.iter().map(|e| (off_to_idx(e.s, k, &case.inp), off_to_idx(e.e, k, &case.inp))).collect::<Vec<_>>();
            if pos(real, &case.kind) != pos(&r, "slice") {
                return Some(format!("error positions under {} are {:?} but {:?} under slice", case.kind, pos(real, &case.kind), pos(&r, "slice")));
            }
            None
        }
        "C13" => {
            if case.more.is_empty() {
                return None;
            }
            let key = |o: &Obs| (o.ok, o.out.clone(), o.errs.clone(), o.panic.is_some());
            // the same history with the handles (clone, &, Box, Rc, Arc, boxed(), Either) assigned differently
            for sched in [2usize, 4, 7] {
                if let Ok(o) = crate::run::run_hist_as(case, &case.kind, &case.ety, &case.mode, sched) {
                    let a: Vec<_> = o.past.iter().chain(std::iter::once(&o)).map(key).collect();
                    let b: Vec<_> = real.past.iter().chain(std::iter::once(real)).map(key).collect();
                    if a != b {
                        return Some(format!("results depend on the handle the parser is used through (schedule {sched}): {:?} vs {:?}", a, b));
                    }
                }
            }
            // the same grammar with every node cloned at construction and the original dropped (each combinator's
            // own Clone impl is then on the path of every parse)
            crate::build::CLONE_NODES.with(|c| c.set(true));
            let cloned = crate::run::run_hist_as(case, &case.kind, &case.ety, &case.mode, 0);
            crate::build::CLONE_NODES.with(|c| c.set(false));
            if let Ok(o) = cloned {
                let a: Vec<_> = o.past.iter().chain(std::iter::once(&o)).map(key).collect();
                let b: Vec<_> = real.past.iter().chain(std::iter::once(real)).map(key).collect();
                if a != b {
                    return Some(format!("a parser built from clones of its parts behaves differently: {:?} vs {:?}", a, b));
                }
            }
            // the same history through one chumsky::cache::Cache (a parser built for 'static, used at every input lifetime)
            if case.kind == "str" && case.ety == "rich" {
                if let Ok(o) = crate::run::run_hist_cache(case, &case.mode) {
                    let a: Vec<_> = o.past.iter().chain(std::iter::once(&o)).map(key).collect();
                    let b: Vec<_> = real.past.iter().chain(std::iter::once(real)).map(key).collect();
                    if a != b {
                        return Some(format!("a parser kept in a Cache behaves differently: {:?} vs {:?}", a, b));
                    }
                }
            }
            // every parse of the history against a fresh parser on that input alone
            let mut inputs = vec![case.inp.clone()];
            inputs.extend(case.more.iter().cloned());
            let obs: Vec<&Obs> = real.past.iter().chain(std::iter::once(real)).collect();
            for (i, inp) in inputs.iter().enumerate() {
                let mut single = case.clone();
                single.inp = inp.clone();
                single.more = vec![];
                if let Ok(f) = run_case_as(&single, &case.kind, &case.ety, &case.mode) {
                    if i < obs.len() && key(&f) != key(obs[i]) {
                        return Some(format!("parse #{i} of the history differs from a fresh parser on the same input: {:?} vs {:?}", key(obs[i]), key(&f)));
                    }
                }
            }
            None
        }
        "C18" => {
            if !real.hash_ok {
                return Some("inspector state differs from the state obtained by feeding the tokens before the cursor".into());
            }
            None
        }
        "C19" => {
            if real.double_drops > 0 {
                return Some(format!("{} value(s) dropped twice", real.double_drops));
            }
            // values lost while the result was still held are compared with the specification ("leaked");
            // once the result has been dropped nothing else may remain
            let leaked = real.live_with_result - real.tracks_in_output;
            if real.panic.is_none() && real.live_after != leaked {
                return Some(format!("{} value(s) still alive after the result was dropped ({} lost during the parse)", real.live_after, leaked));
            }
            // fixed-size collections built differently: through the boxed container impls, and with a zero-sized item
            // type that has a destructor (cleanup code walking a pointer range sees an empty range)
            if case.more.is_empty() && (case.gj.to_string().contains("\"exact\"") || case.gj.to_string().contains("\"grouparr\"")) {
                if !matches!(case.kind.as_str(), "static" | "staticc") {
                    crate::build::VARIANT.with(|c| c.set(1));
                    let boxed = crate::run::run_case_as(case, &case.kind, &case.ety, &case.mode);
                    crate::build::VARIANT.with(|c| c.set(0));
                    if let Ok(b) = boxed {
                        let key = |o: &Obs| (o.ok, o.out.clone(), o.errs.clone(), o.panic.is_some(), o.live_after, o.live_with_result - o.tracks_in_output, o.double_drops);
                        if key(&b) != key(real) {
                            return Some(format!("collect_exactly into Box<[T; N]> behaves differently from [T; N]: (ok, out, errs, panic, alive after, lost, double drops) = {:?} vs {:?}", key(&b), key(real)));
                        }
                    }
                    crate::build::ZLIVE.with(|c| c.set(0));
                    crate::build::ZNEG.with(|c| c.set(false));
                    crate::build::VARIANT.with(|c| c.set(2));
                    let z = crate::run::run_case_as(case, &case.kind, &case.ety, &case.mode);
                    crate::build::VARIANT.with(|c| c.set(0));
                    if let Ok(z) = z {
                        let zlive = crate::build::ZLIVE.with(|c| c.get());
                        let zneg = crate::build::ZNEG.with(|c| c.get());
                        if z.ok != real.ok || z.panic.is_some() != real.panic.is_some() {
                            return Some(format!("with zero-sized item outputs the grammar accepts = {} (panic = {}), with ordinary outputs {} ({})", z.ok, z.panic.is_some(), real.ok, real.panic.is_some()));
                        }
                        if z.panic.is_none() && (zlive != 0 || zneg) {
                            return Some(format!("zero-sized outputs with a destructor: {} still alive after the result was dropped{}", zlive, if zneg { ", some dropped twice" } else { "" }));
                        }
                    }
                }
            }
            if case.mode == "C" && real.created != 0 {
                // values built in check mode are allowed only below combinators that need them
                return None;
            }
            None
        }
        _ => None,
    }
}

/// what identifies a case for the witness lists of known_findings.txt
pub fn case_key(case: &Case) -> String {
    // the colliding pairs are a property of the parser TYPE (its layout), not of the input: the grammar identifies them
    case.gj.to_string()
}

pub fn replay_file(path: &str, prop: &str, max_report: usize) -> Result<ReplayStats, String> {
    let f = std::fs::File::open(path).map_err(|e| format!("{path}: {e}"))?;
    let mut groups: BTreeMap<i64, Vec<J>> = BTreeMap::new();
    let mut behaviours = 0;
    for line in std::io::BufReader::new(f).lines() {
        let line = line.map_err(|e| e.to_string())?;
        let line = line.trim();
        if line.is_empty() {
            continue;
        }
        // TLC prints the string value quoted: "REPLAY {\"cid\":...}"
        let text: String = if line.starts_with('"') { serde_json::from_str(line).map_err(|e| format!("bad line: {e}"))? } else { line.to_string() };
        let body = text.strip_prefix("REPLAY ").ok_or("line without REPLAY prefix")?;
        let j: J = serde_json::from_str(body).map_err(|e| format!("bad json: {e}"))?;
        behaviours += 1;
        groups.entry(j["cid"].as_i64().unwrap_or(0)).or_default().push(j);
    }
    let mut st = ReplayStats {
        cases: groups.len(),
        behaviours,
        runs: 0,
        clean: 0,
        nontrivial: 0,
        kf: BTreeMap::new(),
        kf_samples: BTreeMap::new(),
        kf_cases: BTreeMap::new(),
        mismatches: vec![],
        n_mismatch: 0,
        unsupported: BTreeMap::new(),
        samples: vec![],
    };
    let mut distinct_g = std::collections::HashSet::new();
    for (cid, behs) in &groups {
        let case = match Case::from_json(&behs[0]) {
            Ok(c) => c,
            Err(e) => {
                *st.unsupported.entry(e).or_default() += 1;
                continue;
            }
        };
        let cache: std::cell::RefCell<BTreeMap<(String, String, String), Option<Obs>>> = Default::default();
        let all = |kind: &str, ety: &str, mode: &str| -> Option<Obs> {
            let key = (kind.to_string(), ety.to_string(), mode.to_string());
            if let Some(o) = cache.borrow().get(&key) {
                return o.clone();
            }
            let o = run_case_as(&case, kind, ety, mode).ok();
            cache.borrow_mut().insert(key, o.clone());
            o
        };
        let real = match run_case_as(&case, &case.kind, &case.ety, &case.mode) {
            Ok(o) => o,
            Err(e) => {
                *st.unsupported.entry(e).or_default() += 1;
                continue;
            }
        };
        cache.borrow_mut().insert((case.kind.clone(), case.ety.clone(), case.mode.clone()), Some(real.clone()));
        st.runs += 1;
        let rj = real.to_json();
        let rp = proj(prop, &case.mode, &rj);
        // model side: res + obs merged into one record
        let mut best: Option<Vec<String>> = None;
        for b in behs {
            let mut m = b["res"].clone();
            m["obs"] = b["obs"].clone();
            m["past"] = b["past"].clone();
            let mp = proj(prop, &case.mode, &m);
            if mp == rp {
                let mut kf: Vec<String> = b["kf"].as_array().map(|a| a.iter().map(|x| x.as_str().unwrap_or("").to_string()).collect()).unwrap_or_default();
                kf.sort();
                if best.as_ref().map_or(true, |x| kf.len() < x.len()) {
                    best = Some(kf);
                }
            }
        }
        let assert_fail = real_asserts(prop, &case, &real, &all);
        if distinct_g.insert(case.gj.to_string()) && !case.inp.is_empty() {
            st.nontrivial += 1;
        }
        if st.samples.len() < 3 && *cid % 97 == 1 {
            st.samples.push(json!({"case": case.to_json(), "observation": rp}));
        }
        match (best, assert_fail) {
            (Some(kf), None) if kf.is_empty() => st.clean += 1,
            (Some(kf), None) => {
                let key = kf.join(",");
                *st.kf.entry(key.clone()).or_default() += 1;
                if key.contains("memo_alias") {
                    st.kf_cases.entry(key.clone()).or_default().push(case_key(&case));
                }
                st.kf_samples.entry(key).or_insert_with(|| json!({"case": case.to_json(), "real": rp}));
            }
            (best, assert_fail) => {
                // a failed real-only assertion may be the visible face of a known defect: if the FULL
                // observation equals that of a defect-branch behaviour, report the sites and let the
                // driver decide (known finding of this property or not)
                if assert_fail.is_some() && best.is_some() {
                    let rfull = proj("ALL", &case.mode, &rj);
                    let mut expl: Option<Vec<String>> = None;
                    for b in behs {
                        let mut m = b["res"].clone();
                        m["obs"] = b["obs"].clone();
                        m["past"] = b["past"].clone();
                        let kf: Vec<String> = b["kf"].as_array().map(|a| a.iter().map(|x| x.as_str().unwrap_or("").to_string()).collect()).unwrap_or_default();
                        if !kf.is_empty() && proj("ALL", &case.mode, &m) == rfull && expl.as_ref().map_or(true, |x| kf.len() < x.len()) {
                            expl = Some(kf);
                        }
                    }
                    if let Some(mut kf) = expl {
                        kf.sort();
                        let key = kf.join(",");
                        *st.kf.entry(key.clone()).or_default() += 1;
                        if key.contains("memo_alias") {
                            st.kf_cases.entry(key.clone()).or_default().push(case_key(&case));
                        }
                        st.kf_samples.entry(key).or_insert_with(|| json!({"case": case.to_json(), "real": rp, "assertion": assert_fail}));
                        continue;
                    }
                }
                st.n_mismatch += 1;
                if st.mismatches.len() < max_report {
                    let models: Vec<J> = behs
                        .iter()
                        .map(|b| {
                            let mut m = b["res"].clone();
                            m["obs"] = b["obs"].clone();
                            m["past"] = b["past"].clone();
                            json!({"kf": b["kf"], "expected": proj(prop, &case.mode, &m)})
                        })
                        .collect();
                    st.mismatches.push(json!({
                        "cid": cid, "case": case.to_json(), "real": rp, "model": models,
                        "model_matched": best.is_some(), "assertion": assert_fail,
                        "real_full": rj,
                    }));
                }
            }
        }
    }
    Ok(st)
}
