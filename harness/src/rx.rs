//! C14, regex(p): "matches what an anchored regex search matches at that position".  The matcher is outside the
//! specification (DESIGN.md section 8); the oracle is regex-automata itself, searching the whole haystack anchored
//! at the cursor's byte offset (so that look-behind assertions such as \b, \B and (?m)^ see the preceding text).
use chumsky::prelude::*;
use regex_automata::{meta, Anchored, Input as ReInput};
use serde_json::{json, Value as J};

const PATTERNS: &[&str] = &[r"[a-z]+", r"\b[a-z]+", r"\Bb", r"(?m)^a", r"a*", r"[0-9]+(\.[0-9]+)?", "\u{e9}|a", r"\s+", r".", r"(?i)AB", r"a\b", r"$", r"(?m)$"];

fn strings(alphabet: &[char], max_len: usize) -> Vec<String> {
    let mut all = vec![String::new()];
    let mut last = vec![String::new()];
    for _ in 0..max_len {
        let mut next = vec![];
        for s in &last {
            for c in alphabet {
                let mut t = s.clone();
                t.push(*c);
                next.push(t);
            }
        }
        all.extend(next.iter().cloned());
        last = next;
    }
    all
}

/// (matched, rest) of `any().repeated().exactly(k).ignore_then(regex(pat))` followed by a rest capture, or None
fn real_str<'a>(pat: &str, k: usize, s: &'a str) -> Option<(&'a str, &'a str)> {
    let p = any::<&str, extra::Err<Simple<char>>>()
        .repeated()
        .exactly(k)
        .ignore_then(chumsky::regex::regex(pat))
        .then(any().repeated().to_slice());
    p.parse(s).into_result().ok()
}
fn real_bytes<'a>(pat: &str, k: usize, s: &'a [u8]) -> Option<(&'a [u8], &'a [u8])> {
    let p = any::<&[u8], extra::Err<Simple<u8>>>()
        .repeated()
        .exactly(k)
        .ignore_then(chumsky::regex::regex(pat))
        .then(any().repeated().to_slice());
    p.parse(s).into_result().ok()
}

/// the same grammar with the regex in a value-eliding position (Check mode inside parse): the rest after the match; and
/// whether check() accepts (C04: both must agree with the value-building formulation)
fn real_str_elided<'a>(pat: &str, k: usize, s: &'a str) -> (Option<&'a str>, bool) {
    let p = any::<&str, extra::Err<Simple<char>>>()
        .repeated()
        .exactly(k)
        .ignore_then(chumsky::regex::regex(pat).ignored())
        .ignore_then(any().repeated().to_slice());
    let q = any::<&str, extra::Err<Simple<char>>>()
        .repeated()
        .exactly(k)
        .ignore_then(chumsky::regex::regex(pat))
        .then(any().repeated().to_slice());
    (p.parse(s).into_result().ok(), q.check(s).into_result().is_ok())
}
fn real_bytes_elided<'a>(pat: &str, k: usize, s: &'a [u8]) -> (Option<&'a [u8]>, bool) {
    let p = any::<&[u8], extra::Err<Simple<u8>>>()
        .repeated()
        .exactly(k)
        .ignore_then(chumsky::regex::regex(pat).ignored())
        .ignore_then(any().repeated().to_slice());
    let q = any::<&[u8], extra::Err<Simple<u8>>>()
        .repeated()
        .exactly(k)
        .ignore_then(chumsky::regex::regex(pat))
        .then(any().repeated().to_slice());
    (p.parse(s).into_result().ok(), q.check(s).into_result().is_ok())
}

pub fn run(max_len: usize) -> J {
    let alphabet = ['a', 'b', ' ', '\u{e9}', '0', '\n', '.'];
    let all = strings(&alphabet, max_len);
    let mut checked = 0u64;
    let mut bad = vec![];
    let mut samples = vec![];
    for pat in PATTERNS {
        let re = meta::Regex::new(pat).expect("pattern compiles");
        for s in &all {
            let offs: Vec<usize> = s.char_indices().map(|(i, _)| i).chain(std::iter::once(s.len())).collect();
            for (k, off) in offs.iter().enumerate() {
                let oracle = re.find(ReInput::new(s.as_bytes()).anchored(Anchored::Yes).range(*off..)).map(|m| (&s[m.start()..m.end()], &s[m.end()..]));
                let real = std::panic::catch_unwind(|| real_str(pat, k, s)).unwrap_or(Some(("<panic>", "")));
                checked += 1;
                let elided = std::panic::catch_unwind(|| real_str_elided(pat, k, s)).unwrap_or((Some("<panic>"), false));
                if elided != (oracle.map(|x| x.1), oracle.is_some()) && bad.len() < 10 {
                    bad.push(json!({"pattern": pat, "input": s, "kind": "str, regex(p).ignored() / check()", "position": k, "chumsky": format!("(rest, check accepts) = {elided:?}"),
                                    "anchored_search": format!("{:?}", (oracle.map(|x| x.1), oracle.is_some()))}));
                }
                if real != oracle {
                    if bad.len() < 10 {
                        bad.push(json!({"pattern": pat, "input": s, "kind": "str", "position": k, "chumsky": format!("{real:?}"), "anchored_search": format!("{oracle:?}")}));
                    }
                } else if samples.len() < 3 && oracle.is_some() && k > 0 {
                    samples.push(json!({"pattern": pat, "input": s, "position": k, "matched": oracle.map(|x| x.0)}));
                }
                if s.is_ascii() {
                    let b = s.as_bytes();
                    let oracle_b = re.find(ReInput::new(b).anchored(Anchored::Yes).range(*off..)).map(|m| (&b[m.start()..m.end()], &b[m.end()..]));
                    let real_b = std::panic::catch_unwind(|| real_bytes(pat, k, b)).unwrap_or(Some((b"<panic>", b"")));
                    checked += 1;
                    let elided_b = std::panic::catch_unwind(|| real_bytes_elided(pat, k, b)).unwrap_or((Some(b"<panic>"), false));
                    if elided_b != (oracle_b.map(|x| x.1), oracle_b.is_some()) && bad.len() < 10 {
                        bad.push(json!({"pattern": pat, "input": s, "kind": "bytes, regex(p).ignored() / check()", "position": k, "chumsky": format!("(rest, check accepts) = {elided_b:?}"),
                                        "anchored_search": format!("{:?}", (oracle_b.map(|x| x.1), oracle_b.is_some()))}));
                    }
                    if real_b != oracle_b && bad.len() < 10 {
                        bad.push(json!({"pattern": pat, "input": s, "kind": "bytes", "position": k, "chumsky": format!("{real_b:?}"), "anchored_search": format!("{oracle_b:?}")}));
                    }
                }
            }
        }
    }
    json!({"checked": checked, "patterns": PATTERNS.len(), "strings": all.len(), "disagreements": bad, "samples": samples})
}
