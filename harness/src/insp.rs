//! The inspector (user state) under test and the per-thread event log written by probes.
use crate::errs::Tok;
use crate::val::Val;
use chumsky::input::{Checkpoint, Cursor, Input};
use chumsky::inspector::Inspector;
use std::cell::RefCell;

pub fn mix(h: u64, c: char) -> u64 {
    (h ^ (c as u64).wrapping_add(0x9e3779b97f4a7c15)).wrapping_mul(0x100000001b3).rotate_left(17)
}

/// Inspector whose checkpoint is a by-value snapshot of its whole state (count, rolling hash).
#[derive(Clone, Debug, Default, PartialEq)]
pub struct St {
    pub count: usize,
    pub hash: u64,
    pub saves: u64,
    pub rewinds: u64,
}

thread_local! {
    /// C11 / C20: step budget of the parse in progress.  Every token consumed, checkpoint taken and rewind counts one
    /// step; a parse that exhausts its budget is stopped by a panic (caught per case and reported as an observation),
    /// so that a parser that no longer terminates is seen as such instead of hanging or exhausting memory.
    pub static FUEL: std::cell::Cell<u64> = std::cell::Cell::new(u64::MAX);
}
pub const FUEL_MSG: &str = "FUEL: the parse did not finish within its step budget";
#[inline]
fn burn() {
    FUEL.with(|f| {
        let v = f.get();
        if v == 0 {
            f.set(u64::MAX); // one panic per parse: let the unwinding run freely
            panic!("{}", FUEL_MSG);
        }
        if v != u64::MAX {
            f.set(v - 1);
        }
    })
}
/// Generous for the grammars of the families (which need tens to hundreds of steps on their short inputs, a few per token
/// on the long ones), yet small enough that a runaway recursion is stopped while the stack is still shallow: the panic
/// has to unwind through every stacker segment, which is slow on very deep stacks.
pub fn budget(ntok: usize) -> u64 {
    60_000 + 300 * ntok as u64
}
thread_local! {
    /// the largest share of its budget any parse on this thread has used (reported by `replay`, to keep the budget honest)
    pub static MAX_USED: std::cell::Cell<(u64, u64)> = std::cell::Cell::new((0, 1));
}
pub fn note_used(ntok: usize) {
    let b = budget(ntok);
    let left = FUEL.with(|f| f.get());
    if left != u64::MAX && left <= b {
        let used = b - left;
        MAX_USED.with(|m| {
            let (u0, b0) = m.get();
            if used as u128 * b0 as u128 > u0 as u128 * b as u128 {
                m.set((used, b));
            }
        });
    }
}

impl<'a, I: Input<'a>> Inspector<'a, I> for St
where
    I::Token: Tok,
{
    type Checkpoint = (usize, u64);
    fn on_token(&mut self, t: &I::Token) {
        burn();
        self.hash = mix(self.hash, t.ch());
        self.count += 1;
    }
    fn on_save<'p>(&self, _: &Cursor<'a, 'p, I>) -> (usize, u64) {
        burn();
        (self.count, self.hash)
    }
    fn on_rewind<'p>(&mut self, m: &Checkpoint<'a, 'p, I, (usize, u64)>) {
        burn();
        let (c, h) = *m.inspector();
        self.count = c;
        self.hash = h;
        self.rewinds += 1;
    }
}

#[derive(Clone, Debug, PartialEq)]
pub struct Ev {
    pub id: i64,
    pub cur: usize,  // token index
    pub insp: usize, // inspector count
    pub hash: u64,   // inspector hash
    pub ctx: Val,
}

thread_local! {
    pub static LOG: RefCell<Vec<Ev>> = RefCell::new(Vec::new());
    /// location (as reported by Input::cursor_location) -> token index, for the input being parsed
    pub static LOCS: RefCell<Vec<usize>> = RefCell::new(Vec::new());
    /// base address of the caller's buffer and element size, for the zero-copy check of to_slice
    pub static BASE: RefCell<(usize, usize)> = RefCell::new((0, 1));
}

pub fn loc_to_idx(loc: usize) -> usize {
    LOCS.with(|l| {
        let l = l.borrow();
        if l.is_empty() {
            loc
        } else {
            l.iter().position(|x| *x == loc).unwrap_or(usize::MAX)
        }
    })
}
pub fn log_ev(ev: Ev) {
    LOG.with(|l| l.borrow_mut().push(ev));
}
pub fn take_log() -> Vec<Ev> {
    LOG.with(|l| std::mem::take(&mut *l.borrow_mut()))
}
