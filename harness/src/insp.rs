//! The inspector (user state) under test and the per-thread event log written by probes.
use crate::errs::Tok;
use crate::val::Val;
use chumsky::input::{Checkpoint, Cursor, Input};
use chumsky::inspector::Inspector;
use std::cell::RefCell;

pub fn mix(h: u64, c: char) -> u64 {
    (h ^ (c as u64).wrapping_add(0x9e3779b97f4a7c15)).wrapping_mul(0x100000001b3).rotate_left(17)
}

/// Inspector whose checkpoint is a by-value snapshot of its whole state (count, rolling hash).
#[derive(Clone, Debug, Default, PartialEq)]
pub struct St {
    pub count: usize,
    pub hash: u64,
    pub saves: u64,
    pub rewinds: u64,
}

impl<'a, I: Input<'a>> Inspector<'a, I> for St
where
    I::Token: Tok,
{
    type Checkpoint = (usize, u64);
    fn on_token(&mut self, t: &I::Token) {
        self.hash = mix(self.hash, t.ch());
        self.count += 1;
    }
    fn on_save<'p>(&self, _: &Cursor<'a, 'p, I>) -> (usize, u64) {
        (self.count, self.hash)
    }
    fn on_rewind<'p>(&mut self, m: &Checkpoint<'a, 'p, I, (usize, u64)>) {
        let (c, h) = *m.inspector();
        self.count = c;
        self.hash = h;
        self.rewinds += 1;
    }
}

#[derive(Clone, Debug, PartialEq)]
pub struct Ev {
    pub id: i64,
    pub cur: usize,  // token index
    pub insp: usize, // inspector count
    pub hash: u64,   // inspector hash
    pub ctx: Val,
}

thread_local! {
    pub static LOG: RefCell<Vec<Ev>> = RefCell::new(Vec::new());
    /// location (as reported by Input::cursor_location) -> token index, for the input being parsed
    pub static LOCS: RefCell<Vec<usize>> = RefCell::new(Vec::new());
    /// base address of the caller's buffer and element size, for the zero-copy check of to_slice
    pub static BASE: RefCell<(usize, usize)> = RefCell::new((0, 1));
}

pub fn loc_to_idx(loc: usize) -> usize {
    LOCS.with(|l| {
        let l = l.borrow();
        if l.is_empty() {
            loc
        } else {
            l.iter().position(|x| *x == loc).unwrap_or(usize::MAX)
        }
    })
}
pub fn log_ev(ev: Ev) {
    LOG.with(|l| l.borrow_mut().push(ev));
}
pub fn take_log() -> Vec<Ev> {
    LOG.with(|l| std::mem::take(&mut *l.borrow_mut()))
}
