//! C10: call sequences of spec/Inputs.tla ("from a cursor handed out before, call next k times") replayed on the
//! real caching / seeking input kinds -- Stream, boxed Stream, IoInput -- and on a slice for reference, through the
//! public API only: a custom parser rewinds to the checkpoint of the requested cursor and calls next().
use chumsky::input::{Input, InputRef, IoInput, Stream, ValueInput};
use chumsky::prelude::*;
use serde_json::{json, Value as J};
use std::cell::{Cell, RefCell};
use std::collections::HashMap;
use std::rc::Rc;

#[derive(Clone, Debug, PartialEq)]
struct RunObs {
    n: usize,             // tokens answered
    first: Option<usize>, // source index (1-based) of the first answered token
    end: usize,           // cursor location after the run
    pulled: usize,        // items the source iterator has yielded so far (Stream kinds), 0 otherwise
    sfrom: Option<(usize, usize)>, // InputRef::span_from(cursor..) after the run, where the kind is an ExactSizeInput
}

/// drive one input through the runs; `idx` maps a token back to its source index
fn drive<'a, I, F, S>(input: I, runs: &[(usize, usize)], idx: F, pulled: Rc<Cell<usize>>, sf: S) -> Result<Vec<RunObs>, String>
where
    I: ValueInput<'a>,
    I::Token: Clone,
    F: Fn(&I::Token) -> usize + 'a,
    S: Fn(&mut InputRef<'a, '_, I, extra::Default>) -> Option<(usize, usize)> + 'a,
{
    let log: Rc<RefCell<Vec<RunObs>>> = Rc::new(RefCell::new(vec![]));
    let err: Rc<RefCell<Option<String>>> = Rc::new(RefCell::new(None));
    let (log2, err2) = (log.clone(), err.clone());
    let runs: Vec<(usize, usize)> = runs.to_vec();
    let p = custom::<_, I, (), extra::Default>(move |inp: &mut InputRef<'a, '_, I, extra::Default>| {
        let mut cps = HashMap::new();
        cps.insert(0usize, inp.save());
        for (from, k) in &runs {
            let cp = match cps.get(from) {
                Some(c) => c.clone(),
                None => {
                    *err2.borrow_mut() = Some(format!("no checkpoint for cursor {from}"));
                    return Ok(());
                }
            };
            inp.rewind(cp);
            let mut cur = *from;
            let mut n = 0;
            let mut first = None;
            for _ in 0..*k {
                if let Some(t) = inp.next() {
                    let i = idx(&t);
                    // every answer must be the token at its cursor
                    if i != cur + 1 {
                        *err2.borrow_mut() = Some(format!("next() at cursor {cur} answered source item {i}"));
                    }
                    if first.is_none() {
                        first = Some(i);
                    }
                    cur += 1;
                    n += 1;
                }
            }
            cps.insert(cur, inp.save());
            let end = I::cursor_location(inp.cursor().inner());
            let sfrom = sf(inp);
            log2.borrow_mut().push(RunObs { n, first, end, pulled: pulled.get(), sfrom });
        }
        Ok(())
    });
    let r = std::panic::catch_unwind(std::panic::AssertUnwindSafe(|| {
        let _ = p.parse(input);
    }));
    if r.is_err() {
        return Err("panic".into());
    }
    if let Some(e) = err.borrow().clone() {
        return Err(e);
    }
    let out = log.borrow().clone();
    Ok(out)
}

/// span_from(cursor..) of an input whose spans are SimpleSpan<usize>
macro_rules! sf_simple {
    () => {
        |inp: &mut InputRef<'_, '_, _, extra::Default>| {
            let c = inp.cursor();
            let s = inp.span_from(&c..);
            Some((s.start, s.end))
        }
    };
}

fn tok(i: usize) -> char {
    char::from_u32(0x4E00 + i as u32).unwrap()
}
fn byte(i: usize) -> u8 {
    (i % 251) as u8
}

pub struct Stats {
    pub sequences: usize,
    pub runs: usize,
    pub calls: usize,
    pub n_mismatch: usize,
    pub mismatches: Vec<J>,
}

fn check_one(rec: &J, st: &mut Stats) {
    let n = rec["n"].as_u64().unwrap() as usize;
    let hist = rec["hist"].as_array().unwrap();
    let runs: Vec<(usize, usize)> = hist.iter().map(|h| (h["from"].as_u64().unwrap() as usize, h["k"].as_u64().unwrap() as usize)).collect();
    st.runs += runs.len();
    st.calls += runs.iter().map(|r| r.1).sum::<usize>();
    let want_stream: Vec<RunObs> = hist
        .iter()
        .map(|h| RunObs {
            n: h["n"].as_u64().unwrap() as usize,
            first: match h["first"].as_u64().unwrap() as usize {
                0 => None,
                x => Some(x),
            },
            end: h["end"].as_u64().unwrap() as usize,
            pulled: h["pulled"].as_u64().unwrap() as usize,
            sfrom: Some((h["sfrom"].as_u64().unwrap() as usize, h["sto"].as_u64().unwrap() as usize)),
        })
        .collect();
    let want_plain: Vec<RunObs> = want_stream.iter().map(|r| RunObs { pulled: 0, ..r.clone() }).collect();
    let want_io: Vec<RunObs> = want_plain.iter().map(|r| RunObs { sfrom: None, ..r.clone() }).collect();
    let src: Vec<char> = (1..=n).map(tok).collect();
    let bytes: Vec<u8> = (1..=n).map(byte).collect();
    let chidx = |c: &char| (*c as u32 - 0x4E00) as usize;
    let mut results: Vec<(&str, Result<Vec<RunObs>, String>, &Vec<RunObs>)> = vec![];
    // Stream over a counting iterator
    {
        let pulled = Rc::new(Cell::new(0usize));
        let p2 = pulled.clone();
        let it = src.clone().into_iter().inspect(move |_| p2.set(p2.get() + 1));
        results.push(("stream", drive(Stream::from_iter(it), &runs, chidx, pulled, sf_simple!()), &want_stream));
    }
    {
        let pulled = Rc::new(Cell::new(0usize));
        let p2 = pulled.clone();
        let it = src.clone().into_iter().inspect(move |_| p2.set(p2.get() + 1));
        results.push(("exact-size boxed stream", drive(Stream::from_iter(it).exact_size_boxed(), &runs, chidx, pulled, sf_simple!()), &want_stream));
    }
    let want_boxed: Vec<RunObs> = want_stream.iter().map(|r| RunObs { sfrom: None, ..r.clone() }).collect();
    {
        let pulled = Rc::new(Cell::new(0usize));
        let p2 = pulled.clone();
        let it = src.clone().into_iter().inspect(move |_| p2.set(p2.get() + 1));
        results.push(("boxed stream", drive(Stream::from_iter(it).boxed(), &runs, chidx, pulled, |_| None), &want_boxed));
    }
    // IoInput over an in-memory reader (byte values repeat every 251 positions: drive_io compares values per position)
    {
        results.push(("io", drive_io(&bytes, &runs), &want_io));
    }
    results.push(("slice", drive(&src[..], &runs, chidx, Rc::new(Cell::new(0)), sf_simple!()), &want_plain));
    for (kind, got, want) in results {
        // Answers and cursor locations are compared exactly.  How far AHEAD a Stream pulls is its own business (the batch
        // size is not part of the property): the pull count only has to cover what was answered, never exceed the source,
        // and never go down.
        let ok = match &got {
            Ok(g) => {
                g.len() == want.len()
                    && g.iter().zip(want.iter()).all(|(a, b)| a.n == b.n && a.first == b.first && a.end == b.end && a.sfrom == b.sfrom)
                    && (want.iter().all(|w| w.pulled == 0)
                        || (g.iter().all(|a| a.pulled >= a.end && a.pulled <= n) && g.windows(2).all(|w| w[0].pulled <= w[1].pulled)))
            }
            Err(_) => false,
        };
        if !ok {
            st.n_mismatch += 1;
            if st.mismatches.len() < 10 {
                st.mismatches.push(json!({"kind": kind, "n": n, "runs": runs, "expected": format!("{want:?}"), "real": format!("{got:?}")}));
            }
        }
    }
}

/// IoInput: the same driver with the byte value checked against the expected position
fn drive_io(bytes: &[u8], runs: &[(usize, usize)]) -> Result<Vec<RunObs>, String> {
    let log: Rc<RefCell<Vec<RunObs>>> = Rc::new(RefCell::new(vec![]));
    let err: Rc<RefCell<Option<String>>> = Rc::new(RefCell::new(None));
    let (log2, err2) = (log.clone(), err.clone());
    let runs: Vec<(usize, usize)> = runs.to_vec();
    type I = IoInput<std::io::Cursor<Vec<u8>>>;
    let p = custom::<_, I, (), extra::Default>(move |inp: &mut InputRef<'_, '_, I, extra::Default>| {
        let mut cps = HashMap::new();
        cps.insert(0usize, inp.save());
        for (from, k) in &runs {
            let cp = cps.get(from).cloned();
            let cp = match cp {
                Some(c) => c,
                None => {
                    *err2.borrow_mut() = Some(format!("no checkpoint for cursor {from}"));
                    return Ok(());
                }
            };
            inp.rewind(cp);
            let mut cur = *from;
            let mut n = 0;
            let mut first = None;
            for _ in 0..*k {
                if let Some(b) = inp.next() {
                    if b != byte(cur + 1) {
                        *err2.borrow_mut() = Some(format!("next() at cursor {cur} answered byte {b}, the source has {}", byte(cur + 1)));
                    }
                    if first.is_none() {
                        first = Some(cur + 1);
                    }
                    cur += 1;
                    n += 1;
                }
            }
            cps.insert(cur, inp.save());
            let end = <I as Input>::cursor_location(inp.cursor().inner());
            log2.borrow_mut().push(RunObs { n, first, end, pulled: 0, sfrom: None });
        }
        Ok(())
    });
    let input = IoInput::new(std::io::Cursor::new(bytes.to_vec()));
    let r = std::panic::catch_unwind(std::panic::AssertUnwindSafe(|| {
        let _ = p.parse(input);
    }));
    if r.is_err() {
        return Err("panic".into());
    }
    if let Some(e) = err.borrow().clone() {
        return Err(e);
    }
    let out = log.borrow().clone();
    Ok(out)
}

pub fn replay_file(path: &str) -> Result<Stats, String> {
    let text = std::fs::read_to_string(path).map_err(|e| e.to_string())?;
    let mut st = Stats { sequences: 0, runs: 0, calls: 0, n_mismatch: 0, mismatches: vec![] };
    for line in text.lines() {
        let line = line.trim();
        if !line.starts_with("\"INPUTS ") {
            continue;
        }
        let s: String = serde_json::from_str(line).map_err(|e| format!("bad line: {e}"))?;
        let rec: J = serde_json::from_str(&s["INPUTS ".len()..]).map_err(|e| format!("bad record: {e}"))?;
        st.sequences += 1;
        check_one(&rec, &mut st);
    }
    Ok(st)
}
