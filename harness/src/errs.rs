//! Error types under test and their projection onto the error record of spec/Errs.tla.
use crate::val::char_to_tok;
use chumsky::error::{Cheap, EmptyErr, Error, LabelError, Rich, RichPattern, RichReason, Simple};
use chumsky::input::Input;
use chumsky::span::SimpleSpan;
use serde_json::{json, Value as J};
use std::collections::BTreeSet;

pub trait Tok: Clone + PartialEq + std::fmt::Debug + 'static {
    fn from_ch(c: char) -> Self;
    fn ch(&self) -> char;
}
impl Tok for char {
    fn from_ch(c: char) -> char {
        c
    }
    fn ch(&self) -> char {
        *self
    }
}
/// C19: a token type with observable ownership -- every instance (the caller's originals and every clone the library
/// makes) carries a Track, so a token dropped twice, or a clone that is never dropped, is counted
#[derive(Debug, Clone)]
pub struct KT {
    pub c: char,
    pub t: crate::val::Track,
}
impl PartialEq for KT {
    fn eq(&self, o: &KT) -> bool {
        self.c == o.c
    }
}
impl Tok for KT {
    fn from_ch(c: char) -> KT {
        KT { c, t: crate::val::Track::new() }
    }
    fn ch(&self) -> char {
        self.c
    }
}
/// model tokens that stand for multi-code-point grapheme clusters (kind "graph"): a private-use character each
pub const CLUSTERS: &[(char, &str)] = &[('\u{E000}', "e\u{301}"), ('\u{E001}', "\u{1F1FA}\u{1F1F8}"), ('\u{E002}', "\r\n")];
pub fn expand_clusters(toks: &[char]) -> String {
    let mut s = String::new();
    for c in toks {
        match CLUSTERS.iter().find(|(k, _)| k == c) {
            Some((_, g)) => s.push_str(g),
            None => s.push(*c),
        }
    }
    s
}
impl Tok for &'static chumsky::text::Grapheme {
    fn from_ch(c: char) -> Self {
        let s: String = expand_clusters(&[c]);
        let leaked: &'static str = Box::leak(s.into_boxed_str());
        chumsky::text::Graphemes::new(leaked).iter().next().expect("one grapheme")
    }
    fn ch(&self) -> char {
        let s = self.as_str();
        match CLUSTERS.iter().find(|(_, g)| *g == s) {
            Some((k, _)) => *k,
            None => s.chars().next().unwrap_or('\u{0}'),
        }
    }
}
impl Tok for u8 {
    fn from_ch(c: char) -> u8 {
        c as u32 as u8
    }
    fn ch(&self) -> char {
        *self as char
    }
}

pub trait SpanObs: Clone + 'static {
    fn se(&self) -> (usize, usize);
    fn cx(&self) -> Option<i64> {
        None
    }
}
impl SpanObs for SimpleSpan<usize> {
    fn se(&self) -> (usize, usize) {
        (self.start, self.end)
    }
}
/// spans with a context: the context doubles as the re-basing offset applied by `map_span` in the
/// harness (with_context uses 0), so that observations are comparable across input kinds
impl SpanObs for SimpleSpan<usize, i64> {
    fn se(&self) -> (usize, usize) {
        let off = self.context as usize;
        (self.start.wrapping_sub(off), self.end.wrapping_sub(off))
    }
    fn cx(&self) -> Option<i64> {
        Some(self.context)
    }
}

#[derive(Clone, Debug, PartialEq, Eq, Default)]
pub struct ErrObs {
    pub s: usize,
    pub e: usize,
    pub found: String,
    pub exp: BTreeSet<String>,
    pub cust: String,
    pub ctxs: Vec<(String, usize, usize)>,
}

impl ErrObs {
    pub fn to_json(&self) -> J {
        json!({"s": self.s, "e": self.e, "found": self.found, "exp": self.exp.iter().collect::<Vec<_>>(),
               "cust": self.cust, "ctxs": self.ctxs.iter().map(|(l, s, e)| json!([l, s, e])).collect::<Vec<_>>()})
    }
    pub fn from_json(j: &J) -> ErrObs {
        ErrObs {
            s: j["s"].as_u64().unwrap_or(0) as usize,
            e: j["e"].as_u64().unwrap_or(0) as usize,
            found: j["found"].as_str().unwrap_or("").to_string(),
            exp: j["exp"].as_array().map(|a| a.iter().map(|x| x.as_str().unwrap_or("").to_string()).collect()).unwrap_or_default(),
            cust: j["cust"].as_str().unwrap_or("").to_string(),
            ctxs: j["ctxs"]
                .as_array()
                .map(|a| {
                    a.iter()
                        .map(|c| (c[0].as_str().unwrap_or("").to_string(), c[1].as_u64().unwrap_or(0) as usize, c[2].as_u64().unwrap_or(0) as usize))
                        .collect()
                })
                .unwrap_or_default(),
        }
    }
}

pub trait ErrTy<'a, I: Input<'a>>: Error<'a, I> + LabelError<'a, I, &'static str> + Clone + 'a {
    const NAME: &'static str;
    fn user(span: I::Span, msg: &str) -> Self;
    /// a user error with the same span as self (span-preserving map_err)
    fn retag(&self, msg: &str) -> Self;
    fn obs(&self) -> ErrObs;
}

fn pat<T: Tok>(p: &RichPattern<'_, T>) -> String {
    match p {
        RichPattern::Token(t) => format!("t:{}", char_to_tok(t.ch())),
        RichPattern::Label(l) => format!("l:{l}"),
        RichPattern::Identifier(i) => format!("i:{i}"),
        RichPattern::Any => "any".to_string(),
        RichPattern::SomethingElse => "else".to_string(),
        RichPattern::EndOfInput => "eoi".to_string(),
    }
}

impl<'a, I> ErrTy<'a, I> for Rich<'a, I::Token, I::Span>
where
    I: Input<'a>,
    I::Token: Tok,
    I::Span: SpanObs,
{
    const NAME: &'static str = "rich";
    fn user(span: I::Span, msg: &str) -> Self {
        Rich::custom(span, msg)
    }
    fn retag(&self, msg: &str) -> Self {
        Rich::custom(self.span().clone(), msg)
    }
    fn obs(&self) -> ErrObs {
        let (s, e) = self.span().se();
        let (found, exp, cust) = match self.reason() {
            RichReason::ExpectedFound { expected, found } => (
                found.as_ref().map(|t| char_to_tok(t.ch())).unwrap_or_default(),
                expected.iter().map(pat).collect(),
                String::new(),
            ),
            RichReason::Custom(m) => (String::new(), BTreeSet::new(), m.clone()),
        };
        let ctxs = self
            .contexts()
            .map(|(l, sp)| {
                let (s, e) = sp.se();
                (pat(l), s, e)
            })
            .collect();
        ErrObs { s, e, found, exp, cust, ctxs }
    }
}

impl<'a, I> ErrTy<'a, I> for Simple<'a, I::Token, I::Span>
where
    I: Input<'a>,
    I::Token: Tok,
    I::Span: SpanObs,
{
    const NAME: &'static str = "simple";
    fn user(span: I::Span, _msg: &str) -> Self {
        Simple::new(None, span)
    }
    fn retag(&self, _msg: &str) -> Self {
        Simple::new(None, self.span().clone())
    }
    fn obs(&self) -> ErrObs {
        let (s, e) = self.span().se();
        ErrObs { s, e, found: self.found().map(|t| char_to_tok(t.ch())).unwrap_or_default(), ..Default::default() }
    }
}

impl<'a, I> ErrTy<'a, I> for Cheap<I::Span>
where
    I: Input<'a>,
    I::Span: SpanObs,
{
    const NAME: &'static str = "cheap";
    fn user(span: I::Span, _msg: &str) -> Self {
        Cheap::new(span)
    }
    fn retag(&self, _msg: &str) -> Self {
        Cheap::new(self.span().clone())
    }
    fn obs(&self) -> ErrObs {
        let (s, e) = self.span().se();
        ErrObs { s, e, ..Default::default() }
    }
}

impl<'a, I> ErrTy<'a, I> for EmptyErr
where
    I: Input<'a>,
{
    const NAME: &'static str = "empty";
    fn user(_span: I::Span, _msg: &str) -> Self {
        EmptyErr::default()
    }
    fn retag(&self, _msg: &str) -> Self {
        EmptyErr::default()
    }
    fn obs(&self) -> ErrObs {
        ErrObs::default()
    }
}
