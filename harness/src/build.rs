//! AST -> real chumsky parser.  Every node is built with the real combinator it names; closures
//! come from the vocabulary shared with the specification (spec/Ast.tla).
use crate::ast::{Ins, It, Strat, B, G};
use crate::errs::{ErrTy, SpanObs, Tok};
use crate::insp::{loc_to_idx, log_ev, Ev, St, BASE};
use crate::val::{map_fn, pred, Val};
use chumsky::extra;
use chumsky::input::{Input, InputRef, ValueInput};
use chumsky::prelude::*;
use chumsky::recovery::{nested_delimiters, skip_then_retry_until, skip_until, via_parser};
use chumsky::recursive::{Direct, Indirect, Recursive};
use chumsky::{Boxed, ConfigIterParser, ConfigParser, IterParser, Parser};

pub type X<E> = extra::Full<E, St, Val>;

thread_local! {
    /// C13: when set, every node of the grammar is built, CLONED, the original dropped and the clone used, so that
    /// each combinator's (hand-written) Clone impl is on the path of every parse
    pub static CLONE_NODES: std::cell::Cell<bool> = std::cell::Cell::new(false);
}
thread_local! {
    /// C19: how fixed-size collections are built.  0 = `[O; N]` of values; 1 = `Box<[O; N]>` (collect_exactly through the
    /// boxed container impl); 2 = the items are mapped to a ZERO-SIZED type with a destructor before they are grouped /
    /// collected (group([..; N]) and collect_exactly::<[Zst; N]>): cleanup code that walks a pointer range sees an empty one
    pub static VARIANT: std::cell::Cell<u8> = std::cell::Cell::new(0);
    pub static ZLIVE: std::cell::Cell<i64> = std::cell::Cell::new(0);
    pub static ZNEG: std::cell::Cell<bool> = std::cell::Cell::new(false);
}
pub fn variant() -> u8 {
    VARIANT.with(|c| c.get())
}
/// a zero-sized output with a destructor: alive instances are counted, a count below zero is a double drop
pub struct Zst;
impl Zst {
    pub fn new() -> Zst {
        ZLIVE.with(|c| c.set(c.get() + 1));
        Zst
    }
}
impl Drop for Zst {
    fn drop(&mut self) {
        ZLIVE.with(|c| {
            c.set(c.get() - 1);
            if c.get() < 0 {
                ZNEG.with(|n| n.set(true));
            }
        });
    }
}
impl IntoVal for Zst {
    fn into_val(self) -> Val {
        Val::U
    }
}
fn to_zst(v: Val) -> Zst {
    drop(v);
    Zst::new()
}
pub fn clone_nodes() -> bool {
    CLONE_NODES.with(|c| c.get())
}
thread_local! {
    /// When set, every library combinator that the builder follows with a `.map(..)` (to turn its output into a Val) is
    /// type-erased first (`.boxed()`), so that it is entered through its dynamic entry points go_emit / go_check instead
    /// of the generic go::<M>: both ways in must behave alike (C04, C13)
    pub static BOX_INNER: std::cell::Cell<bool> = std::cell::Cell::new(false);
}
pub fn box_inner() -> bool {
    BOX_INNER.with(|c| c.get())
}
pub trait Bxd<'a, I: Input<'a>, O, Ex: chumsky::extra::ParserExtra<'a, I>>: Parser<'a, I, O, Ex> + Clone + Sized + 'a {
    /// `.map(f)` followed by boxing; under BOX_INNER the parser itself is boxed before it is mapped
    fn bmap<O2: 'a, F: Fn(O) -> O2 + Clone + 'a>(self, f: F) -> Boxed<'a, 'a, I, O2, Ex>
    where
        O: 'a,
    {
        if box_inner() {
            Parser::boxed(self).map(f).bxd()
        } else {
            self.map(f).bxd()
        }
    }
    fn bxd(self) -> Boxed<'a, 'a, I, O, Ex> {
        if clone_nodes() {
            let c = self.clone();
            drop(self);
            Parser::boxed(c)
        } else {
            Parser::boxed(self)
        }
    }
}
impl<'a, I: Input<'a>, O, Ex: chumsky::extra::ParserExtra<'a, I>, Pz: Parser<'a, I, O, Ex> + Clone + Sized + 'a> Bxd<'a, I, O, Ex> for Pz {}
pub type P<'a, I, E> = Boxed<'a, 'a, I, Val, X<E>>;
pub enum Bound<'a, I: Kind<'a>, E: ErrTy<'a, I>> {
    Rec(Recursive<Direct<'a, 'a, I, Val, X<E>>>),
    RecI(Recursive<Indirect<'a, 'a, I, Val, X<E>>>),
    Let(P<'a, I, E>, usize),
}
impl<'a, I: Kind<'a>, E: ErrTy<'a, I>> Clone for Bound<'a, I, E> {
    fn clone(&self) -> Self {
        match self {
            Bound::Rec(r) => Bound::Rec(r.clone()),
            Bound::RecI(r) => Bound::RecI(r.clone()),
            Bound::Let(p, n) => Bound::Let(p.clone(), *n),
        }
    }
}
pub type Env<'a, I, E> = Vec<Bound<'a, I, E>>;

pub trait Kind<'a>: Input<'a, Token: Tok, Span: SpanObs> + Sized + 'a {
    /// any / select / custom-with-next, not, lazy, nested_delimiters: only where tokens can be taken by value
    fn vleaf<E: ErrTy<'a, Self>>(_g: &G) -> Result<P<'a, Self, E>, String> {
        Err(format!("input kind {} cannot hand out tokens by value", Self::NAME))
    }
    fn vnot<E: ErrTy<'a, Self>>(_p: P<'a, Self, E>) -> Result<P<'a, Self, E>, String> {
        Err(format!("input kind {} cannot hand out tokens by value", Self::NAME))
    }
    fn vprog<E: ErrTy<'a, Self>>(_ins: &[Ins], _subs: Vec<P<'a, Self, E>>) -> Result<P<'a, Self, E>, String> {
        Err(format!("input kind {} cannot hand out tokens by value", Self::NAME))
    }
    fn vlazy<E: ErrTy<'a, Self>>(_p: P<'a, Self, E>) -> Result<P<'a, Self, E>, String> {
        Err(format!("input kind {} cannot hand out tokens by value", Self::NAME))
    }
    fn vnd<E: ErrTy<'a, Self>>(_a: P<'a, Self, E>, _st: char, _en: char, _others: &[(char, char)]) -> Result<P<'a, Self, E>, String> {
        Err(format!("input kind {} cannot hand out tokens by value", Self::NAME))
    }
    const NAME: &'static str;
    fn toslice<E: ErrTy<'a, Self>>(_p: P<'a, Self, E>) -> Result<P<'a, Self, E>, String> {
        Err(format!("to_slice unsupported on input kind {}", Self::NAME))
    }
    /// address of the caller's buffer and element size, where the kind has slices (zero-copy check of to_slice)
    fn base(&self) -> (usize, usize) {
        (0, 1)
    }
    /// a parser of chumsky::text, where the input is text (&str, &[u8]) and the error type is Rich
    fn text<E: ErrTy<'a, Self>>(_name: &str, _arg: &str) -> Result<P<'a, Self, E>, String> {
        Err(format!("input kind {} is not text", Self::NAME))
    }
    fn tpadded<E: ErrTy<'a, Self>>(_p: P<'a, Self, E>) -> Result<P<'a, Self, E>, String> {
        Err(format!("input kind {} is not text", Self::NAME))
    }
    /// one_of / none_of (a Vec of tokens; text inputs use a string as the set, as users write it)
    fn one_of_set<E: ErrTy<'a, Self>>(_ts: &[char], _negate: bool) -> Result<P<'a, Self, E>, String> {
        Err(format!("input kind {} cannot hand out tokens by value", Self::NAME))
    }
    /// any_ref() / select_ref!: only inputs that can lend their tokens (BorrowInput)
    fn any_ref<E: ErrTy<'a, Self>>() -> Result<P<'a, Self, E>, String> {
        Err(format!("input kind {} cannot lend tokens", Self::NAME))
    }
    fn sel_ref<E: ErrTy<'a, Self>>(_ts: Vec<char>) -> Result<P<'a, Self, E>, String> {
        Err(format!("input kind {} cannot lend tokens", Self::NAME))
    }
    /// select_ref! { Group(xs) => inner input } where the input is a token tree (C16)
    fn tree_leaf<E: ErrTy<'a, Self>>() -> Result<Boxed<'a, 'a, Self, Self, X<E>>, String> {
        Err(format!("input kind {} has no group tokens", Self::NAME))
    }
}



// ---- combinators that need ValueInput (tokens by value): not every Input has them (IterInput does not) ----
pub fn value_leaf<'a, I: Kind<'a> + ValueInput<'a>, E: ErrTy<'a, I>>(g: &G) -> Result<P<'a, I, E>, String> {
    Ok(match g {
        G::Any => any::<I, X<E>>().bmap(|t: I::Token| Val::T(t.ch())),
        G::Sel(ts) => {
            let ts = ts.clone();
            chumsky::primitive::select(move |t: I::Token, _| if ts.contains(&t.ch()) { Some(Val::m("sel", Val::T(t.ch()))) } else { None }).bxd()
        }
        G::Cust(k, ok) => {
            let (k, ok) = (*k, *ok);
            custom(move |inp: &mut InputRef<'a, '_, I, X<E>>| {
                let before = inp.cursor();
                for _ in 0..k {
                    if inp.next().is_none() {
                        let sp = inp.span_since(&before);
                        return Err(E::user(sp, "cu"));
                    }
                }
                if ok {
                    Ok(Val::C(k as i64))
                } else {
                    let sp = inp.span_since(&before);
                    Err(E::user(sp, "cu"))
                }
            })
            .bxd()
        }
        G::Ext(k, ok) => chumsky::extension::v1::Ext(KExt { k: *k, ok: *ok }).bxd(),
        other => return Err(format!("not a value leaf: {other:?}")),
    })
}
/// custom(|inp| ..) whose closure interprets a straight-line program over InputRef's public methods
pub fn value_prog<'a, I: Kind<'a> + ValueInput<'a>, E: ErrTy<'a, I>>(ins: &[Ins], subs: Vec<P<'a, I, E>>) -> P<'a, I, E> {
    let ins: Vec<Ins> = ins.to_vec();
    custom(move |inp: &mut InputRef<'a, '_, I, X<E>>| {
        let start = inp.cursor();
        let mut saved = None;
        let mut seen: Vec<Val> = vec![];
        for i in &ins {
            match i {
                Ins::NextMaybe => {
                    if inp.next_maybe().is_none() {
                        return Err(E::user(inp.span_since(&start), "cu"));
                    }
                }
                Ins::PeekMaybe(c) => {
                    if inp.peek_maybe().map(|t| t.ch()) != Some(*c) {
                        return Err(E::user(inp.span_since(&start), "cu"));
                    }
                }
                Ins::SpanSince => {
                    let sp = match &saved {
                        Some(cp) => {
                            let cp: &chumsky::input::Checkpoint<'a, '_, I, _> = cp;
                            inp.span_since(cp.cursor())
                        }
                        None => inp.span_since(&start),
                    };
                    seen.push(span_val(&sp));
                }
                Ins::State => {
                    let n = inp.state().count;
                    seen.push(Val::I(n as i64));
                }
                Ins::Ctx => seen.push(inp.ctx().clone()),
                Ins::Next => {
                    if inp.next().is_none() {
                        return Err(E::user(inp.span_since(&start), "cu"));
                    }
                }
                Ins::Skip => inp.skip(),
                Ins::Peek(c) => {
                    if inp.peek().map(|t| t.ch()) != Some(*c) {
                        return Err(E::user(inp.span_since(&start), "cu"));
                    }
                }
                Ins::Save => saved = Some(inp.save()),
                Ins::Rewind => {
                    if let Some(c) = saved.clone() {
                        inp.rewind(c);
                    }
                }
                Ins::Fail => return Err(E::user(inp.span_since(&start), "cu")),
                Ins::Run(k) => {
                    inp.parse(&subs[*k - 1])?;
                }
                Ins::Chk(k) => {
                    inp.check(&subs[*k - 1])?;
                }
            }
        }
        let fin = span_val(&inp.span_since(&start));
        Ok(if seen.is_empty() { fin } else { Val::p(Val::L(seen), fin) })
    })
    .bxd()
}
/// an extension parser that runs a sub-parser through InputRef::parse resp. InputRef::check
#[derive(Clone)]
pub struct SubExt<Pz>(Pz);
impl<'a, I: Kind<'a>, E: ErrTy<'a, I>> chumsky::extension::v1::ExtParser<'a, I, Val, X<E>> for SubExt<P<'a, I, E>> {
    fn parse(&self, inp: &mut InputRef<'a, '_, I, X<E>>) -> Result<Val, E> {
        inp.parse(&self.0)
    }
    fn check(&self, inp: &mut InputRef<'a, '_, I, X<E>>) -> Result<(), E> {
        inp.check(&self.0)
    }
}
/// an extension parser (feature `extension`) with separate value-building and checking bodies
#[derive(Clone)]
pub struct KExt {
    k: usize,
    ok: bool,
}
impl<'a, I: Kind<'a> + ValueInput<'a>, E: ErrTy<'a, I>> chumsky::extension::v1::ExtParser<'a, I, Val, X<E>> for KExt {
    fn parse(&self, inp: &mut InputRef<'a, '_, I, X<E>>) -> Result<Val, E> {
        let before = inp.cursor();
        let mut seen = vec![];
        for _ in 0..self.k {
            match inp.next() {
                Some(t) => seen.push(t.ch()),
                None => return Err(E::user(inp.span_since(&before), "cu")),
            }
        }
        if self.ok {
            Ok(Val::C(seen.len() as i64))
        } else {
            Err(E::user(inp.span_since(&before), "cu"))
        }
    }
    fn check(&self, inp: &mut InputRef<'a, '_, I, X<E>>) -> Result<(), E> {
        let before = inp.cursor();
        let mut n = 0;
        while n < self.k {
            if inp.next().is_none() {
                return Err(E::user(inp.span_since(&before), "cu"));
            }
            n += 1;
        }
        if self.ok {
            Ok(())
        } else {
            Err(E::user(inp.span_since(&before), "cu"))
        }
    }
}
pub fn value_set<'a, I: Kind<'a> + ValueInput<'a>, E: ErrTy<'a, I>>(ts: &[char], negate: bool) -> P<'a, I, E> {
    if negate {
        none_of::<_, I, X<E>>(tks::<I::Token>(ts)).bmap(|t: I::Token| Val::T(t.ch()))
    } else {
        one_of::<_, I, X<E>>(tks::<I::Token>(ts)).bmap(|t: I::Token| Val::T(t.ch()))
    }
}
pub fn value_nd<'a, I: Kind<'a> + ValueInput<'a>, E: ErrTy<'a, I>>(a: P<'a, I, E>, st: char, en: char, others: &[(char, char)]) -> Result<P<'a, I, E>, String> {
    let (st, en) = (I::Token::from_ch(st), I::Token::from_ch(en));
    Ok(match others.len() {
        0 => a.recover_with(via_parser(nested_delimiters(st, en, [], |sp: I::Span| Val::m("nd", span_val(&sp))))).bxd(),
        1 => {
            let o = [(I::Token::from_ch(others[0].0), I::Token::from_ch(others[0].1))];
            a.recover_with(via_parser(nested_delimiters(st, en, o, |sp: I::Span| Val::m("nd", span_val(&sp))))).bxd()
        }
        n => return Err(format!("unsupported nested_delimiters arity {n}")),
    })
}
macro_rules! value_impl {
    ($lt:lifetime) => {
        fn vleaf<E: ErrTy<$lt, Self>>(g: &G) -> Result<P<$lt, Self, E>, String> {
            value_leaf::<Self, E>(g)
        }
        fn vnot<E: ErrTy<$lt, Self>>(p: P<$lt, Self, E>) -> Result<P<$lt, Self, E>, String> {
            Ok(p.not().bmap(|()| Val::U))
        }
        fn vprog<E: ErrTy<$lt, Self>>(ins: &[crate::ast::Ins], subs: Vec<P<$lt, Self, E>>) -> Result<P<$lt, Self, E>, String> {
            Ok(crate::build::value_prog::<Self, E>(ins, subs))
        }
        fn vlazy<E: ErrTy<$lt, Self>>(p: P<$lt, Self, E>) -> Result<P<$lt, Self, E>, String> {
            Ok(p.lazy().bxd())
        }
        fn vnd<E: ErrTy<$lt, Self>>(a: P<$lt, Self, E>, st: char, en: char, others: &[(char, char)]) -> Result<P<$lt, Self, E>, String> {
            value_nd::<Self, E>(a, st, en, others)
        }
    };
}
pub(crate) use value_impl;
macro_rules! value_set_impl {
    ($lt:lifetime) => {
        fn one_of_set<E: ErrTy<$lt, Self>>(ts: &[char], negate: bool) -> Result<P<$lt, Self, E>, String> {
            Ok(value_set::<Self, E>(ts, negate))
        }
    };
}
pub(crate) use value_set_impl;

macro_rules! by_ref_impl {
    () => {
        fn any_ref<E: ErrTy<'a, Self>>() -> Result<P<'a, Self, E>, String> {
            Ok(chumsky::primitive::any_ref::<Self, X<E>>().bmap(|t: &Self::Token| crate::val::Val::T(t.ch())))
        }
        fn sel_ref<E: ErrTy<'a, Self>>(ts: Vec<char>) -> Result<P<'a, Self, E>, String> {
            Ok(chumsky::primitive::select_ref(move |t: &'a Self::Token, _| if ts.contains(&t.ch()) { Some(crate::val::Val::m("sel", crate::val::Val::T(t.ch()))) } else { None }).bxd())
        }
    };
}
pub(crate) use by_ref_impl;

/// The text parsers need `E::Error: LabelError<I, TextExpected<I>>`, which the generic builder cannot name for an
/// arbitrary input kind; they are built for the concrete (kind, Rich) pair and handed back under the generic
/// type, which is the same type whenever the names agree (checked by the caller).
fn same_type<A, Bt>(a: A) -> Bt {
    assert_eq!(std::mem::size_of::<A>(), std::mem::size_of::<Bt>());
    assert_eq!(std::any::type_name::<A>().len(), std::any::type_name::<Bt>().len());
    let b = unsafe { std::mem::transmute_copy::<A, Bt>(&a) };
    std::mem::forget(a);
    b
}

macro_rules! text_impl {
    ($I:ty, $T:ty, $kwseq:expr, $nl:expr) => {
        fn text<E: ErrTy<'a, Self>>(name: &str, arg: &str) -> Result<P<'a, Self, E>, String> {
            use chumsky::text;
            if E::NAME != "rich" {
                return Err("text parsers are instantiated for Rich errors".into());
            }
            type R<'a> = chumsky::error::Rich<'a, $T>;
            let sl = |s: <$I as chumsky::input::SliceInput<'a>>::Slice| slice_val(s.as_ptr() as usize, s.len());
            let radix = || arg.parse::<u32>().map_err(|e| format!("radix {arg}: {e}"));
            let p: P<'a, $I, R<'a>> = match name {
                "ws" => text::whitespace::<$I, X<R<'a>>>().to_slice().bmap(sl),
                "iws" => text::inline_whitespace::<$I, X<R<'a>>>().to_slice().bmap(sl),
                "nl" => $nl?,
                "digits" => text::digits::<$I, X<R<'a>>>(radix()?).to_slice().bmap(sl),
                "int" => text::int::<$I, X<R<'a>>>(radix()?).bmap(sl),
                "aident" => text::ascii::ident::<$I, X<R<'a>>>().bmap(sl),
                "uident" => text::unicode::ident::<$I, X<R<'a>>>().bmap(sl),
                "akw" => text::ascii::keyword::<$I, _, X<R<'a>>>($kwseq(arg)).bmap(sl),
                "ukw" => text::unicode::keyword::<$I, _, X<R<'a>>>($kwseq(arg)).bmap(sl),
                n => return Err(format!("unknown text parser {n}")),
            };
            Ok(same_type::<P<'a, $I, R<'a>>, P<'a, Self, E>>(p))
        }
        fn tpadded<E: ErrTy<'a, Self>>(p: P<'a, Self, E>) -> Result<P<'a, Self, E>, String> {
            Ok(p.padded().bxd())
        }
    };
}

pub fn slice_val(ptr: usize, len: usize) -> Val {
    let (base, sz) = BASE.with(|b| *b.borrow());
    let off = (ptr.wrapping_sub(base)) / sz;
    Val::Sl(off, off + len)
}

fn nl_str<'a>() -> Result<P<'a, &'a str, chumsky::error::Rich<'a, char>>, String> {
    Ok(chumsky::text::newline::<&'a str, X<chumsky::error::Rich<'a, char>>>().to_slice().bmap(|s: &'a str| slice_val(s.as_ptr() as usize, s.len())))
}
/// a keyword for byte inputs: comparable with the matched byte slice and printable as an expectation
#[derive(Clone)]
pub struct KwB(&'static [u8]);
impl<'x> PartialEq<&'x [u8]> for KwB {
    fn eq(&self, o: &&'x [u8]) -> bool {
        self.0 == *o
    }
}
impl<'x> From<KwB> for chumsky::error::RichPattern<'x, u8> {
    fn from(k: KwB) -> Self {
        chumsky::error::RichPattern::Identifier(String::from_utf8_lossy(k.0).into_owned())
    }
}
fn kw_str(arg: &str) -> &'static str {
    Box::leak(arg.to_string().into_boxed_str())
}
fn kw_bytes(arg: &str) -> KwB {
    KwB(Box::leak(arg.as_bytes().to_vec().into_boxed_slice()))
}
impl<'a> Kind<'a> for &'a str {
    const NAME: &'static str = "str";
    text_impl!(&'a str, char, kw_str, nl_str());
    fn one_of_set<E: ErrTy<'a, Self>>(ts: &[char], negate: bool) -> Result<P<'a, Self, E>, String> {
        let set: String = ts.iter().collect();
        Ok(if negate { none_of::<_, Self, X<E>>(set).map(Val::T).bxd() } else { one_of::<_, Self, X<E>>(set).bmap(Val::T) })
    }
    value_impl!('a);
    fn base(&self) -> (usize, usize) {
        (self.as_ptr() as usize, 1)
    }
    fn toslice<E: ErrTy<'a, Self>>(p: P<'a, Self, E>) -> Result<P<'a, Self, E>, String> {
        Ok(p.to_slice().bmap(|s: &'a str| slice_val(s.as_ptr() as usize, s.len())))
    }
}
impl<'a> Kind<'a> for &'a [char] {
    const NAME: &'static str = "slice";
    value_impl!('a);
    value_set_impl!('a);
    by_ref_impl!();
    fn base(&self) -> (usize, usize) {
        (self.as_ptr() as usize, std::mem::size_of::<char>())
    }
    fn toslice<E: ErrTy<'a, Self>>(p: P<'a, Self, E>) -> Result<P<'a, Self, E>, String> {
        Ok(p.to_slice().bmap(|s: &'a [char]| slice_val(s.as_ptr() as usize, s.len())))
    }
}

pub fn span_val<S: SpanObs>(sp: &S) -> Val {
    let (s, e) = sp.se();
    Val::Sp(s, e)
}

// ---- the other input representations (C10): same tokens, different Input implementations ----
pub type SSpan = chumsky::span::SimpleSpan<usize>;
pub type CSpan = chumsky::span::SimpleSpan<usize, i64>;

impl<'a, const N: usize> Kind<'a> for &'a [char; N] {
    const NAME: &'static str = "array";
    value_impl!('a);
    value_set_impl!('a);
    by_ref_impl!();
    fn base(&self) -> (usize, usize) {
        (self.as_ptr() as usize, std::mem::size_of::<char>())
    }
    fn toslice<E: ErrTy<'a, Self>>(p: P<'a, Self, E>) -> Result<P<'a, Self, E>, String> {
        Ok(p.to_slice().bmap(|s: &'a [char]| slice_val(s.as_ptr() as usize, s.len())))
    }
}
impl<'a> Kind<'a> for &'a [u8] {
    const NAME: &'static str = "bytes";
    value_impl!('a);
    value_set_impl!('a);
    by_ref_impl!();
    // text::newline() requires `&str: OrderedSeq<Token>` and so does not exist for byte inputs
    text_impl!(&'a [u8], u8, kw_bytes, Err::<P<'a, &'a [u8], chumsky::error::Rich<'a, u8>>, String>("text::newline is not available on byte inputs".into()));
    fn base(&self) -> (usize, usize) {
        (self.as_ptr() as usize, 1)
    }
    fn toslice<E: ErrTy<'a, Self>>(p: P<'a, Self, E>) -> Result<P<'a, Self, E>, String> {
        Ok(p.to_slice().bmap(|s: &'a [u8]| slice_val(s.as_ptr() as usize, s.len())))
    }
}
// C19: slices and streams of tokens with observable ownership (every clone the library makes is tracked)
impl<'a> Kind<'a> for &'a [crate::errs::KT] {
    const NAME: &'static str = "tslice";
    value_impl!('a);
    value_set_impl!('a);
    by_ref_impl!();
}
impl<'a, T: Tok, It: Iterator<Item = T> + 'a> Kind<'a> for chumsky::input::Stream<It> {
    const NAME: &'static str = "stream";
    value_impl!('a);
    value_set_impl!('a);
}
// Input::map over a slice of (token, span) pairs: can lend its tokens
impl<'a, F> Kind<'a> for chumsky::input::MappedInput<char, SSpan, &'a [(char, SSpan)], F>
where
    F: Fn(&'a (char, SSpan)) -> (&'a char, &'a SSpan) + 'a,
{
    const NAME: &'static str = "mapped";
    value_impl!('a);
    value_set_impl!('a);
    by_ref_impl!();
}
// Input::map over a boxed Stream of (token, span) pairs
impl<'a, F> Kind<'a> for chumsky::input::MappedInput<char, SSpan, chumsky::input::BoxedStream<'a, (char, SSpan)>, F>
where
    F: Fn((char, SSpan)) -> (char, SSpan) + 'a,
{
    const NAME: &'static str = "mstream";
    value_impl!('a);
    value_set_impl!('a);
}
// IterInput: (token, span) pairs from a cloneable iterator, rewinding by cloning the iterator.  It implements Input but
// not ValueInput: just / end / empty and every combinator work on it, any / one_of / none_of / select / not / lazy do not
impl<'a, It: Iterator<Item = (char, SSpan)> + Clone + 'a> Kind<'a> for chumsky::input::IterInput<It, SSpan> {
    const NAME: &'static str = "iter";
}
// &Graphemes: tokens are extended grapheme clusters, spans byte offsets
impl Kind<'static> for &'static chumsky::text::Graphemes {
    const NAME: &'static str = "graph";
    value_impl!('static);
    value_set_impl!('static);
    fn toslice<E: ErrTy<'static, Self>>(p: P<'static, Self, E>) -> Result<P<'static, Self, E>, String> {
        Ok(p.to_slice().bmap(|s: &'static chumsky::text::Graphemes| slice_val(s.as_str().as_ptr() as usize, s.as_str().len())))
    }
    fn base(&self) -> (usize, usize) {
        (self.as_str().as_ptr() as usize, 1)
    }
}
impl<'a, In: ValueInput<'a, Token = char, Span = SSpan> + 'a> Kind<'a> for chumsky::input::WithContext<CSpan, In> {
    const NAME: &'static str = "wctx";
    value_impl!('a);
    value_set_impl!('a);
}
impl<'a, In: ValueInput<'a, Token = char, Span = SSpan> + 'a, F: Fn(SSpan) -> CSpan + 'a> Kind<'a> for chumsky::input::MappedSpan<CSpan, In, F> {
    const NAME: &'static str = "mapspan";
    value_impl!('a);
    value_set_impl!('a);
}
impl<'a, R: std::io::Read + std::io::Seek + 'a> Kind<'a> for chumsky::input::IoInput<R> {
    const NAME: &'static str = "io";
    value_impl!('a);
    value_set_impl!('a);
}

pub trait IntoVal: 'static {
    fn into_val(self) -> Val;
}
impl IntoVal for Val {
    fn into_val(self) -> Val {
        self
    }
}
impl IntoVal for (usize, Val) {
    fn into_val(self) -> Val {
        Val::p(Val::I(self.0 as i64), self.1)
    }
}

fn tks<T: Tok>(s: &[char]) -> Vec<T> {
    s.iter().map(|c| T::from_ch(*c)).collect()
}

enum Cons<'x, 'a, I: Kind<'a>, E: ErrTy<'a, I>> {
    Collect(&'x str),
    Exact(usize),
    Foldl(P<'a, I, E>, String, bool),
    Foldr(P<'a, I, E>, String, bool),
}

fn consume<'a, I, E, R, O>(r: R, cons: Cons<'_, 'a, I, E>) -> Result<P<'a, I, E>, String>
where
    I: Kind<'a>,
    E: ErrTy<'a, I>,
    O: IntoVal,
    R: IterParser<'a, I, O, X<E>> + Clone + 'a,
{
    let r = if clone_nodes() { r.clone() } else { r };
    let items = |v: Vec<O>| v.into_iter().map(IntoVal::into_val).collect::<Vec<Val>>();
    Ok(match cons {
        Cons::Collect("vec") => r.collect::<Vec<O>>().bmap(move |v| Val::L(items(v))),
        Cons::Collect("count") => r.collect::<usize>().bmap(|n| Val::I(n as i64)),
        Cons::Collect("count2") => r.count().bmap(|n| Val::I(n as i64)),
        Cons::Collect("unit") => r.collect::<()>().bmap(|()| Val::U),
        Cons::Collect(s) => return Err(format!("unsupported sink {s}")),
        Cons::Exact(1) if variant() == 1 => r.collect_exactly::<Box<[O; 1]>>().bmap(|a| Val::A((a as Box<[O]>).into_vec().into_iter().map(IntoVal::into_val).collect())),
        Cons::Exact(2) if variant() == 1 => r.collect_exactly::<Box<[O; 2]>>().bmap(|a| Val::A((a as Box<[O]>).into_vec().into_iter().map(IntoVal::into_val).collect())),
        Cons::Exact(3) if variant() == 1 => r.collect_exactly::<Box<Box<[O; 3]>>>().bmap(|a| Val::A((*a as Box<[O]>).into_vec().into_iter().map(IntoVal::into_val).collect())),
        Cons::Exact(0) => r.collect_exactly::<[O; 0]>().bmap(|_| Val::A(vec![])),
        Cons::Exact(1) => r.collect_exactly::<[O; 1]>().bmap(|a| Val::A(a.into_iter().map(IntoVal::into_val).collect())),
        Cons::Exact(2) => r.collect_exactly::<[O; 2]>().bmap(|a| Val::A(a.into_iter().map(IntoVal::into_val).collect())),
        Cons::Exact(3) => r.collect_exactly::<[O; 3]>().bmap(|a| Val::A(a.into_iter().map(IntoVal::into_val).collect())),
        Cons::Exact(n) => return Err(format!("unsupported collect_exactly size {n}")),
        Cons::Foldl(a, f, false) => a.foldl(r, move |acc, it: O| Val::f(&f, acc, it.into_val())).bxd(),
        Cons::Foldl(a, f, true) => a
            .foldl_with(r, move |acc, it: O, e| {
                let sp = e.span().se();
                let c = e.ctx().clone();
                let ic = e.state().count;
                Val::w(Val::f(&f, acc, it.into_val()), sp.0, sp.1, c, ic)
            })
            .bxd(),
        Cons::Foldr(b, f, false) => r.foldr(b, move |it: O, acc| Val::f(&f, it.into_val(), acc)).bxd(),
        Cons::Foldr(b, f, true) => r
            .foldr_with(b, move |it: O, acc, e| {
                let sp = e.span().se();
                let c = e.ctx().clone();
                let ic = e.state().count;
                Val::w(Val::f(&f, it.into_val(), acc), sp.0, sp.1, c, ic)
            })
            .bxd(),
    })
}

fn with_iter<'a, I, E>(it: &It, env: &Env<'a, I, E>, cons: Cons<'_, 'a, I, E>) -> Result<P<'a, I, E>, String>
where
    I: Kind<'a>,
    E: ErrTy<'a, I>,
{
    match it {
        It::Rep(a, lo, hi) if variant() == 2 && matches!(cons, Cons::Exact(_)) => {
            let mut r = build(a, env)?.map(to_zst).repeated().at_least(*lo);
            if *hi >= 0 {
                r = r.at_most(*hi as usize);
            }
            consume(r, cons)
        }
        It::Sep(a, s, lo, hi, lead, trail) if variant() == 2 && matches!(cons, Cons::Exact(_)) => {
            let mut r = build(a, env)?.map(to_zst).separated_by(build(s, env)?).at_least(*lo);
            if *hi >= 0 {
                r = r.at_most(*hi as usize);
            }
            if *lead {
                r = r.allow_leading();
            }
            if *trail {
                r = r.allow_trailing();
            }
            consume(r, cons)
        }
        It::Rep(a, lo, hi) => {
            let mut r = build(a, env)?.repeated().at_least(*lo);
            if *hi >= 0 {
                r = r.at_most(*hi as usize);
            }
            consume(r, cons)
        }
        It::Sep(a, s, lo, hi, lead, trail) => {
            let mut r = build(a, env)?.separated_by(build(s, env)?).at_least(*lo);
            if *hi >= 0 {
                r = r.at_most(*hi as usize);
            }
            if *lead {
                r = r.allow_leading();
            }
            if *trail {
                r = r.allow_trailing();
            }
            consume(r, cons)
        }
        It::IntoIter(a) => consume(build(a, env)?.map(list_items).into_iter(), cons),
        It::Enum(inner) => match &**inner {
            It::Rep(a, lo, hi) => {
                let mut r = build(a, env)?.repeated().at_least(*lo);
                if *hi >= 0 {
                    r = r.at_most(*hi as usize);
                }
                consume(r.enumerate(), cons)
            }
            It::Sep(a, s, lo, hi, lead, trail) => {
                let mut r = build(a, env)?.separated_by(build(s, env)?).at_least(*lo);
                if *hi >= 0 {
                    r = r.at_most(*hi as usize);
                }
                if *lead {
                    r = r.allow_leading();
                }
                if *trail {
                    r = r.allow_trailing();
                }
                consume(r.enumerate(), cons)
            }
            _ => Err("unsupported enumerate operand".into()),
        },
        It::CfgRep(inner, how) => match &**inner {
            It::Rep(a, lo, hi) => {
                let mut r = build(a, env)?.repeated().at_least(*lo);
                if *hi >= 0 {
                    r = r.at_most(*hi as usize);
                }
                match how {
                    0 => consume(r.configure(|cfg, ctx: &Val| cfg.exactly(ctx.ctx_num())), cons),
                    1 => consume(r.configure(|cfg, ctx: &Val| cfg.at_least(ctx.ctx_num())), cons),
                    3 => consume(r.try_configure(|cfg, ctx: &Val, span| if ctx.ctx_num() <= 2 { Ok(cfg.exactly(ctx.ctx_num())) } else { Err(E::user(span, "tc")) }), cons),
                    _ => consume(r.configure(|cfg, ctx: &Val| cfg.at_most(ctx.ctx_num())), cons),
                }
            }
            _ => Err("unsupported configure operand".into()),
        },
    }
}

/// the elements of a collected output (p.into_iter() needs an IntoIterator output)
fn list_items(v: Val) -> Vec<Val> {
    match v {
        Val::L(xs) => xs,
        other => vec![other],
    }
}

/// an iterator node used directly as a parser (Repeated::go, SeparatedBy::go, IterConfigure::go)
fn run_iter<'a, I, E>(it: &It, env: &Env<'a, I, E>) -> Result<P<'a, I, E>, String>
where
    I: Kind<'a>,
    E: ErrTy<'a, I>,
{
    match it {
        It::Rep(a, lo, hi) => {
            let mut r = build(a, env)?.repeated().at_least(*lo);
            if *hi >= 0 {
                r = r.at_most(*hi as usize);
            }
            Ok(r.bmap(|()| Val::U))
        }
        It::Sep(a, s, lo, hi, lead, trail) => {
            let mut r = build(a, env)?.separated_by(build(s, env)?).at_least(*lo);
            if *hi >= 0 {
                r = r.at_most(*hi as usize);
            }
            if *lead {
                r = r.allow_leading();
            }
            if *trail {
                r = r.allow_trailing();
            }
            Ok(r.bmap(|()| Val::U))
        }
        It::CfgRep(inner, how) => match &**inner {
            It::Rep(a, lo, hi) => {
                let mut r = build(a, env)?.repeated().at_least(*lo);
                if *hi >= 0 {
                    r = r.at_most(*hi as usize);
                }
                Ok(match how {
                    0 => r.configure(|cfg, ctx: &Val| cfg.exactly(ctx.ctx_num())).bmap(|()| Val::U),
                    1 => r.configure(|cfg, ctx: &Val| cfg.at_least(ctx.ctx_num())).bmap(|()| Val::U),
                    3 => r.try_configure(|cfg, ctx: &Val, span| if ctx.ctx_num() <= 2 { Ok(cfg.exactly(ctx.ctx_num())) } else { Err(E::user(span, "tc")) }).bmap(|()| Val::U),
                    _ => r.configure(|cfg, ctx: &Val| cfg.at_most(ctx.ctx_num())).bmap(|()| Val::U),
                })
            }
            _ => Err("unsupported configure operand".into()),
        },
        It::IntoIter(a) => Ok(Parser::map(build(a, env)?.map(list_items).into_iter(), |()| Val::U).bxd()),
        _ => Err("enumerate cannot be run as a parser".into()),
    }
}

/// collect::<String>() needs char items: items are first mapped to their leftmost token
fn collect_str<'a, I, E>(it: &It, env: &Env<'a, I, E>) -> Result<P<'a, I, E>, String>
where
    I: Kind<'a>,
    E: ErrTy<'a, I>,
{
    let ch = |v: Val| v.first_tok().unwrap_or('\u{0}');
    let out = |s: String| Val::Str(s.chars().collect());
    match it {
        It::Rep(a, lo, hi) => {
            let mut r = build(a, env)?.map(ch).repeated().at_least(*lo);
            if *hi >= 0 {
                r = r.at_most(*hi as usize);
            }
            Ok(r.collect::<String>().bmap(out))
        }
        It::Sep(a, s, lo, hi, lead, trail) => {
            let mut r = build(a, env)?.map(ch).separated_by(build(s, env)?).at_least(*lo);
            if *hi >= 0 {
                r = r.at_most(*hi as usize);
            }
            if *lead {
                r = r.allow_leading();
            }
            if *trail {
                r = r.allow_trailing();
            }
            Ok(r.collect::<String>().bmap(out))
        }
        _ => Err("unsupported String sink operand".into()),
    }
}

fn b2<'a, I: Kind<'a>, E: ErrTy<'a, I>>(a: &B, b: &B, env: &Env<'a, I, E>) -> Result<(P<'a, I, E>, P<'a, I, E>), String> {
    Ok((build(a, env)?, build(b, env)?))
}

pub fn build<'a, I, E>(g: &G, env: &Env<'a, I, E>) -> Result<P<'a, I, E>, String>
where
    I: Kind<'a>,
    E: ErrTy<'a, I>,
{
    Ok(match g {
        G::Just(seq) => {
            let s: Vec<I::Token> = tks(seq);
            just::<_, I, X<E>>(s).bmap(|s: Vec<I::Token>| Val::S(s.iter().map(|t| t.ch()).collect()))
        }
        G::CfgJust => just::<_, I, X<E>>(Vec::<I::Token>::new())
            .configure(|cfg, ctx: &Val| cfg.seq(tks::<I::Token>(&ctx.ctx_toks())))
            .bmap(|s: Vec<I::Token>| Val::S(s.iter().map(|t| t.ch()).collect())),
        G::CfgJustR => {
            // the same configurable parser reached through the by-reference ConfigParser impl
            let j: &'a chumsky::primitive::Just<Vec<I::Token>, I, X<E>> = Box::leak(Box::new(just::<_, I, X<E>>(Vec::<I::Token>::new())));
            j.configure(|cfg, ctx: &Val| cfg.seq(tks::<I::Token>(&ctx.ctx_toks())))
                .bmap(|s: Vec<I::Token>| Val::S(s.iter().map(|t| t.ch()).collect()))
        }
        G::Any | G::Sel(_) | G::Cust(..) | G::Ext(..) => I::vleaf::<E>(g)?,
        G::Prog(ins, subs) => I::vprog::<E>(ins, subs.iter().map(|p| build(p, env)).collect::<Result<Vec<_>, _>>()?)?,
        G::OneOf(ts) => I::one_of_set::<E>(ts, false)?,
        G::NoneOf(ts) => I::one_of_set::<E>(ts, true)?,
        G::AnyR => I::any_ref::<E>()?,
        G::SelR(ts) => I::sel_ref::<E>(ts.clone())?,
        G::End => end::<I, X<E>>().bmap(|()| Val::U),
        G::Empty => empty::<I, X<E>>().bmap(|()| Val::U),
        G::Probe(id) => {
            let id = *id;
            custom(move |inp: &mut InputRef<'a, '_, I, X<E>>| {
                let loc = I::cursor_location(inp.cursor().inner());
                let ctx = inp.ctx().clone();
                let st = inp.state();
                log_ev(Ev { id, cur: loc_to_idx(loc), insp: st.count, hash: st.hash, ctx });
                Ok(Val::U)
            })
            .bxd()
        }
        G::Then(a, b) => {
            let (a, b) = b2(a, b, env)?;
            a.then(b).bmap(|(x, y)| Val::p(x, y))
        }
        G::IThen(a, b) => {
            let (a, b) = b2(a, b, env)?;
            a.ignore_then(b).bxd()
        }
        G::ThenI(a, b) => {
            let (a, b) = b2(a, b, env)?;
            a.then_ignore(b).bxd()
        }
        G::Delim(a, s, e) => build(a, env)?.delimited_by(build(s, env)?, build(e, env)?).bxd(),
        G::Padded(a, p) => build(a, env)?.padded_by(build(p, env)?).bxd(),
        G::Group(ps) => {
            let mut v = ps.iter().map(|p| build(p, env)).collect::<Result<Vec<_>, _>>()?;
            match v.len() {
                1 => group((v.remove(0),)).bmap(|(a,)| Val::G(vec![a])),
                2 => {
                    let (b, a) = (v.pop().unwrap(), v.pop().unwrap());
                    group((a, b)).bmap(|(a, b)| Val::G(vec![a, b]))
                }
                3 => {
                    let (c, b, a) = (v.pop().unwrap(), v.pop().unwrap(), v.pop().unwrap());
                    group((a, b, c)).bmap(|(a, b, c)| Val::G(vec![a, b, c]))
                }
                n => return Err(format!("unsupported group size {n}")),
            }
        }
        G::GroupArr(ps) if variant() == 2 => {
            let mut v = ps.iter().map(|p| build(p, env).map(|p| p.map(to_zst).boxed())).collect::<Result<Vec<_>, _>>()?;
            match v.len() {
                1 => group([v.remove(0)]).bmap(|a: [Zst; 1]| Val::A(a.into_iter().map(IntoVal::into_val).collect())),
                2 => {
                    let (b, a) = (v.pop().unwrap(), v.pop().unwrap());
                    group([a, b]).bmap(|a: [Zst; 2]| Val::A(a.into_iter().map(IntoVal::into_val).collect()))
                }
                3 => {
                    let (c, b, a) = (v.pop().unwrap(), v.pop().unwrap(), v.pop().unwrap());
                    group([a, b, c]).bmap(|a: [Zst; 3]| Val::A(a.into_iter().map(IntoVal::into_val).collect()))
                }
                n => return Err(format!("unsupported group array size {n}")),
            }
        }
        G::GroupArr(ps) => {
            let mut v = ps.iter().map(|p| build(p, env)).collect::<Result<Vec<_>, _>>()?;
            match v.len() {
                1 => group([v.remove(0)]).bmap(|a: [Val; 1]| Val::A(a.into_iter().collect())),
                2 => {
                    let (b, a) = (v.pop().unwrap(), v.pop().unwrap());
                    group([a, b]).bmap(|a: [Val; 2]| Val::A(a.into_iter().collect()))
                }
                3 => {
                    let (c, b, a) = (v.pop().unwrap(), v.pop().unwrap(), v.pop().unwrap());
                    group([a, b, c]).bmap(|a: [Val; 3]| Val::A(a.into_iter().collect()))
                }
                n => return Err(format!("unsupported group array size {n}")),
            }
        }
        G::Or(a, b) => {
            let (a, b) = b2(a, b, env)?;
            a.or(b).bxd()
        }
        G::Choice(ps) => {
            let mut v = ps.iter().map(|p| build(p, env)).collect::<Result<Vec<_>, _>>()?;
            match v.len() {
                1 => choice((v.remove(0),)).bxd(),
                2 => {
                    let (b, a) = (v.pop().unwrap(), v.pop().unwrap());
                    choice((a, b)).bxd()
                }
                3 => {
                    let (c, b, a) = (v.pop().unwrap(), v.pop().unwrap(), v.pop().unwrap());
                    choice((a, b, c)).bxd()
                }
                4 => {
                    let (d, c, b, a) = (v.pop().unwrap(), v.pop().unwrap(), v.pop().unwrap(), v.pop().unwrap());
                    choice((a, b, c, d)).bxd()
                }
                n => return Err(format!("unsupported tuple choice size {n}")),
            }
        }
        G::ChoiceV(ps) => {
            let v = ps.iter().map(|p| build(p, env)).collect::<Result<Vec<_>, _>>()?;
            choice(v).bxd()
        }
        G::OrNot(a) => build(a, env)?
            .or_not()
            .bmap(|o| match o {
                Some(v) => Val::O(Box::new(v)),
                None => Val::N,
            }),
        G::Not(a) => I::vnot::<E>(build(a, env)?)?,
        G::AndIs(a, b) => {
            let (a, b) = b2(a, b, env)?;
            a.and_is(b).bxd()
        }
        G::Rewind(a) => build(a, env)?.rewind().bxd(),
        G::Map(a, f) => {
            let f = f.clone();
            build(a, env)?.bmap(move |v| map_fn(&f, v))
        }
        G::To(a, c) => build(a, env)?.to(Val::k(c)).bxd(),
        G::Ignored(a) => build(a, env)?.ignored().bmap(|()| Val::U),
        G::Filter(a, p) => {
            let p = p.clone();
            build(a, env)?.filter(move |v| pred(&p, v)).bxd()
        }
        G::TryMap(a, p) => {
            let p = p.clone();
            build(a, env)?
                .try_map(move |v, span| if pred(&p, &v) { Ok(v) } else { Err(E::user(span, "tm")) })
                .bxd()
        }
        G::TryMapW(a, p) => {
            let p = p.clone();
            build(a, env)?
                .try_map_with(move |v, e| if pred(&p, &v) { Ok(v) } else { Err(E::user(e.span(), "tw")) })
                .bxd()
        }
        G::Validate(a, id, p) => {
            let (id, p) = (format!("v{id}"), p.clone());
            build(a, env)?
                .validate(move |v, e, em| {
                    if !pred(&p, &v) {
                        em.emit(E::user(e.span(), &id));
                    }
                    v
                })
                .bxd()
        }
        G::Mw(a) => build(a, env)?
            .map_with(|v, e| {
                let sp = e.span().se();
                let c = e.ctx().clone();
                let ic = e.state().count;
                Val::w(v, sp.0, sp.1, c, ic)
            })
            .bxd(),
        G::ToSpan(a) => build(a, env)?.to_span().bmap(|s: I::Span| span_val(&s)),
        G::ToSlice(a) => I::toslice::<E>(build(a, env)?)?,
        G::Boxed(a) => Parser::boxed(build(a, env)?).bxd(),
        G::Lazy(a) => I::vlazy::<E>(build(a, env)?)?,
        G::Collect(it, sink) if sink == "str" => collect_str(it, env)?,
        G::Collect(it, sink) => with_iter(it, env, Cons::Collect(sink))?,
        G::Exact(it, n) => with_iter(it, env, Cons::Exact(*n))?,
        G::Run(it) => run_iter(it, env)?,
        G::Foldl(a, it, f) => with_iter(it, env, Cons::Foldl(build(a, env)?, f.clone(), false))?,
        G::FoldlW(a, it, f) => with_iter(it, env, Cons::Foldl(build(a, env)?, f.clone(), true))?,
        G::Foldr(it, b, f) => with_iter(it, env, Cons::Foldr(build(b, env)?, f.clone(), false))?,
        G::FoldrW(it, b, f) => with_iter(it, env, Cons::Foldr(build(b, env)?, f.clone(), true))?,
        G::Recover(a, s) => {
            let a = build(a, env)?;
            match s {
                Strat::Via(p) => a.recover_with(via_parser(build(p, env)?)).bxd(),
                Strat::SkipUntil(sk, un) => a
                    .recover_with(skip_until(build(sk, env)?.ignored(), build(un, env)?.ignored(), || Val::E("su".into())))
                    .bxd(),
                Strat::Retry(sk, un) => a.recover_with(skip_then_retry_until(build(sk, env)?.ignored(), build(un, env)?.ignored())).bxd(),
                Strat::Nested(st, en, others) => I::vnd::<E>(a, *st, *en, others)?,
            }
        }
        G::Label(a, l, isctx) => {
            let l: &'static str = Box::leak(l.clone().into_boxed_str());
            let p = build(a, env)?.labelled(l);
            if *isctx {
                p.as_context().bxd()
            } else {
                p.bxd()
            }
        }
        G::MapErr(a, f) => match f.as_str() {
            "id" => build(a, env)?.map_err(|e: E| e).bxd(),
            "tag" => build(a, env)?.map_err(|e: E| e.retag("me")).bxd(),
            f => return Err(format!("unknown map_err function {f}")),
        },
        // directly nested: no box in between, as a user writing p.memoized().memoized() gets it
        G::Memo(a) => match &**a {
            G::Memo(inner) => build(inner, env)?.memoized().memoized().bxd(),
            _ => build(a, env)?.memoized().bxd(),
        },
        G::Rec(body) => {
            let mut err = None;
            let p = recursive(|r| {
                let mut env2 = env.clone();
                env2.push(Bound::Rec(r));
                match build(body, &env2) {
                    Ok(p) => p,
                    Err(e) => {
                        err = Some(e);
                        chumsky::primitive::todo::<I, Val, X<E>>().bxd()
                    }
                }
            });
            if let Some(e) = err {
                return Err(e);
            }
            p.bxd()
        }
        G::RecD(body) => {
            // the same definition through the declare / define API
            let mut decl = Recursive::<Indirect<'a, 'a, I, Val, X<E>>>::declare();
            let mut env2 = env.clone();
            env2.push(Bound::RecI(decl.clone()));
            let b = build(body, &env2)?;
            decl.define(b);
            decl.bxd()
        }
        G::Ref(k) => {
            if *k == 0 || *k > env.len() {
                return Err(format!("dangling recursive reference {k}"));
            }
            match &env[env.len() - *k] {
                Bound::Rec(r) => r.clone().bxd(),
                Bound::RecI(r) => r.clone().bxd(),
                Bound::Let(..) => return Err("ref to a let binding".into()),
            }
        }
        G::Let(def, body) => {
            // the definition is built once; every `var` use is a clone of that boxed parser (same allocation)
            let d = build(def, env)?;
            let mut env2 = env.clone();
            env2.push(Bound::Let(d, env.len()));
            build(body, &env2)?
        }
        G::Var(k) => {
            if *k == 0 || *k > env.len() {
                return Err(format!("dangling variable {k}"));
            }
            match &env[env.len() - *k] {
                Bound::Let(p, _) => p.clone(),
                Bound::Rec(_) | Bound::RecI(_) => return Err("var to a rec binding".into()),
            }
        }
        G::WithCtx(c, a) => build(a, env)?.with_ctx(c.clone()).bxd(),
        G::ThenCtx(a, b) => {
            let (a, b) = b2(a, b, env)?;
            a.then_with_ctx(b).bmap(|(x, y)| Val::p(x, y))
        }
        G::IgnCtx(a, b) => {
            let (a, b) = b2(a, b, env)?;
            a.ignore_with_ctx(b).bxd()
        }
        G::MapCtx(f, a) => {
            let f = f.clone();
            chumsky::primitive::map_ctx::<_, _, I, X<E>, X<E>, _>(move |c: &Val| map_fn(&f, c.clone()), build(a, env)?).bxd()
        }
        G::WithState(a) => build(a, env)?.with_state(St::default()).bxd(),
        G::Text(name, arg) => I::text::<E>(name, arg)?,
        G::TPadded(a) => I::tpadded::<E>(build(a, env)?)?,
        G::ExtSub(a) => chumsky::extension::v1::Ext(SubExt(build(a, env)?)).bxd(),
        G::Nested(a, b) => crate::tree::nested(build(a, env)?, crate::tree::build_b(b, env)?),
        G::Tree => return Err("a group selector yields an input, not a value: only as the `b` of nested".into()),
        G::Pratt(atom, ops, table) => {
            use chumsky::pratt::{infix, left, postfix, prefix, right, Operator};
            let atom = build(atom, env)?;
            let mut bops = vec![];
            for op in ops {
                let j = build(&op.g, env)?;
                let w = |v: Val, e: &mut chumsky::input::MapExtra<'a, '_, I, X<E>>| {
                    let sp = e.span().se();
                    let c = e.ctx().clone();
                    let ic = e.state().count;
                    Val::w(v, sp.0, sp.1, c, ic)
                };
                // C13 / clone-built runs: the operator value is cloned (its own Clone impl) and the original dropped
                macro_rules! opb {
                    ($e:expr) => {{
                        let o = $e;
                        if clone_nodes() {
                            let c = o.clone();
                            drop(o);
                            c.boxed()
                        } else {
                            o.boxed()
                        }
                    }};
                }
                let b: chumsky::pratt::Boxed<'a, 'a, I, Val, X<E>> = match op.fix.as_str() {
                    "prefix" => opb!(prefix(op.bp, j, move |o: Val, r: Val, e: &mut _| w(Val::f("pre", o, r), e))),
                    "postfix" => opb!(postfix(op.bp, j, move |l: Val, o: Val, e: &mut _| w(Val::f("post", l, o), e))),
                    "infixl" => opb!(infix(left(op.bp), j, move |l: Val, o: Val, r: Val, e: &mut _| w(Val::f("in", Val::p(l, o), r), e))),
                    "infixr" => opb!(infix(right(op.bp), j, move |l: Val, o: Val, r: Val, e: &mut _| w(Val::f("in", Val::p(l, o), r), e))),
                    f => return Err(format!("unknown operator fixity {f}")),
                };
                bops.push(b);
            }
            match (table.as_str(), bops.len()) {
                ("vec", _) => atom.pratt(bops).bxd(),
                ("tuple", 1) => atom.pratt((bops.remove(0),)).bxd(),
                ("tuple", 2) => {
                    let (b, a) = (bops.pop().unwrap(), bops.pop().unwrap());
                    atom.pratt((a, b)).bxd()
                }
                ("tuple", 3) => {
                    let (c, b, a) = (bops.pop().unwrap(), bops.pop().unwrap(), bops.pop().unwrap());
                    atom.pratt((a, b, c)).bxd()
                }
                ("tuple", 4) => {
                    let (d, c, b, a) = (bops.pop().unwrap(), bops.pop().unwrap(), bops.pop().unwrap(), bops.pop().unwrap());
                    atom.pratt((a, b, c, d)).bxd()
                }
                ("tuple", 5) => {
                    let (e5, d, c, b, a) = (bops.pop().unwrap(), bops.pop().unwrap(), bops.pop().unwrap(), bops.pop().unwrap(), bops.pop().unwrap());
                    atom.pratt((a, b, c, d, e5)).bxd()
                }
                ("tuple", 6) => {
                    let (f6, e5, d, c, b, a) =
                        (bops.pop().unwrap(), bops.pop().unwrap(), bops.pop().unwrap(), bops.pop().unwrap(), bops.pop().unwrap(), bops.pop().unwrap());
                    atom.pratt((a, b, c, d, e5, f6)).bxd()
                }
                (t, n) => return Err(format!("unsupported operator table {t} of size {n}")),
            }
        }
    })
}
// t
