//! Token trees (C16): inputs whose tokens are either plain characters or groups holding an inner
//! token sequence, supplied as nested slices (`&[TT]`, kind "tree": spans are indices into the
//! slice being parsed) or through `Input::map` with global gapped spans (kind "treem").
use crate::build::{value_leaf, value_nd, value_set, Bxd, Kind, SSpan, P, X};
use crate::ast::G;
use crate::val::Val;
use crate::errs::{ErrTy, Tok};
use chumsky::input::{Input, MappedInput};
use chumsky::prelude::*;
use chumsky::{Boxed, Parser};

/// plain nested slices
#[derive(Clone, Debug, PartialEq)]
pub enum TT {
    Leaf(char),
    Group(Vec<TT>),
}
impl Tok for TT {
    fn from_ch(c: char) -> TT {
        TT::Leaf(c)
    }
    fn ch(&self) -> char {
        match self {
            TT::Leaf(c) => *c,
            TT::Group(_) => '(',
        }
    }
}

/// tokens carrying their own spans; a group also knows the end-of-input span of its inner input
#[derive(Clone, Debug, PartialEq)]
pub enum TS {
    Leaf(char),
    Group(Vec<(TS, SSpan)>, SSpan),
}
impl Tok for TS {
    fn from_ch(c: char) -> TS {
        TS::Leaf(c)
    }
    fn ch(&self) -> char {
        match self {
            TS::Leaf(c) => *c,
            TS::Group(..) => '(',
        }
    }
}

/// flat token list with balanced '(' ')' -> nested slices
pub fn parse_tt(toks: &[char]) -> Result<Vec<TT>, String> {
    fn go(toks: &[char], i: &mut usize, depth: usize) -> Result<Vec<TT>, String> {
        let mut v = vec![];
        while *i < toks.len() {
            match toks[*i] {
                '(' => {
                    *i += 1;
                    let inner = go(toks, i, depth + 1)?;
                    v.push(TT::Group(inner));
                }
                ')' => {
                    if depth == 0 {
                        return Err("unbalanced token tree".into());
                    }
                    *i += 1;
                    return Ok(v);
                }
                c => {
                    v.push(TT::Leaf(c));
                    *i += 1;
                }
            }
        }
        if depth == 0 {
            Ok(v)
        } else {
            Err("unbalanced token tree".into())
        }
    }
    let mut i = 0;
    go(toks, &mut i, 0)
}

/// the same with global gapped spans: the token starting at flat position p spans 3p+1 .. 3q+2 where q
/// is the flat position of its last character (q = p for a leaf, the matching ')' for a group); the
/// inner input of a group whose ')' sits at flat position q ends at 3q+1
pub fn parse_ts(toks: &[char]) -> Result<Vec<(TS, SSpan)>, String> {
    fn go(toks: &[char], i: &mut usize, depth: usize) -> Result<(Vec<(TS, SSpan)>, usize), String> {
        let mut v = vec![];
        while *i < toks.len() {
            match toks[*i] {
                '(' => {
                    let p = *i;
                    *i += 1;
                    let (inner, q) = go(toks, i, depth + 1)?;
                    v.push((TS::Group(inner, SSpan::from(3 * q..3 * q + 1)), SSpan::from(3 * p + 1..3 * q + 2)));
                }
                ')' => {
                    if depth == 0 {
                        return Err("unbalanced token tree".into());
                    }
                    let q = *i;
                    *i += 1;
                    return Ok((v, q));
                }
                c => {
                    v.push((TS::Leaf(c), SSpan::from(3 * *i + 1..3 * *i + 2)));
                    *i += 1;
                }
            }
        }
        if depth == 0 {
            Ok((v, toks.len()))
        } else {
            Err("unbalanced token tree".into())
        }
    }
    let mut i = 0;
    go(toks, &mut i, 0).map(|x| x.0)
}

impl<'a> Kind<'a> for &'a [TT] {
    const NAME: &'static str = "tree";
    crate::build::value_impl!('a);
    crate::build::value_set_impl!('a);
    crate::build::by_ref_impl!();
    fn tree_leaf<E: ErrTy<'a, Self>>() -> Result<Boxed<'a, 'a, Self, Self, X<E>>, String> {
        Ok(select_ref! { TT::Group(xs) => xs.as_slice() }.bxd())
    }
}

pub type TsFn<'a> = fn(&'a (TS, SSpan)) -> (&'a TS, &'a SSpan);
pub type TsInput<'a> = MappedInput<TS, SSpan, &'a [(TS, SSpan)], TsFn<'a>>;
pub fn ts_proj<'a>(x: &'a (TS, SSpan)) -> (&'a TS, &'a SSpan) {
    (&x.0, &x.1)
}
pub fn ts_input<'a>(toks: &'a [(TS, SSpan)], eoi: SSpan) -> TsInput<'a> {
    toks.map(eoi, ts_proj as TsFn<'a>)
}

impl<'a> Kind<'a> for TsInput<'a> {
    const NAME: &'static str = "treem";
    crate::build::value_impl!('a);
    crate::build::value_set_impl!('a);
    crate::build::by_ref_impl!();
    fn tree_leaf<E: ErrTy<'a, Self>>() -> Result<Boxed<'a, 'a, Self, Self, X<E>>, String> {
        Ok(select_ref! { TS::Group(xs, eoi) => ts_input(xs.as_slice(), *eoi) }.bxd())
    }
}

/// `b` of a.nested_in(b): a parser yielding an inner input of the same kind
pub fn build_b<'a, I, E>(g: &crate::ast::G, env: &crate::build::Env<'a, I, E>) -> Result<Boxed<'a, 'a, I, I, X<E>>, String>
where
    I: Kind<'a>,
    E: ErrTy<'a, I>,
{
    use crate::ast::G;
    use crate::build::build;
    Ok(match g {
        G::Tree => I::tree_leaf::<E>()?,
        G::IThen(x, b) => build(x, env)?.ignore_then(build_b(b, env)?).bxd(),
        G::ThenI(b, x) => build_b(b, env)?.then_ignore(build(x, env)?).bxd(),
        G::Or(b1, b2) => build_b(b1, env)?.or(build_b(b2, env)?).bxd(),
        other => return Err(format!("not an inner-input parser: {other:?}")),
    })
}

pub fn nested<'a, I, E>(a: P<'a, I, E>, b: Boxed<'a, 'a, I, I, X<E>>) -> P<'a, I, E>
where
    I: Kind<'a>,
    E: ErrTy<'a, I>,
{
    a.nested_in(b).bxd()
}
