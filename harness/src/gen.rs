//! Random case generation for the implementation -> specification direction: grammars larger
//! than the exhaustive tier reaches, longer inputs.  Mirrors the families of spec/MC.tla and the
//! well-formedness rules of spec/Ast.tla (repetition items and skip steps consume input).
use serde_json::{json, Value as J};

pub struct Rng(pub u64);
impl Rng {
    pub fn new(seed: u64) -> Rng {
        Rng(seed.wrapping_mul(0x9e3779b97f4a7c15) ^ 0xd1b54a32d192ed03)
    }
    pub fn next(&mut self) -> u64 {
        // splitmix64
        self.0 = self.0.wrapping_add(0x9e3779b97f4a7c15);
        let mut z = self.0;
        z = (z ^ (z >> 30)).wrapping_mul(0xbf58476d1ce4e5b9);
        z = (z ^ (z >> 27)).wrapping_mul(0x94d049bb133111eb);
        z ^ (z >> 31)
    }
    pub fn below(&mut self, n: usize) -> usize {
        (self.next() % n as u64) as usize
    }
    pub fn pick<'x, T>(&mut self, xs: &'x [T]) -> &'x T {
        &xs[self.below(xs.len())]
    }
    pub fn chance(&mut self, num: usize, den: usize) -> bool {
        self.below(den) < num
    }
}

fn op(g: &J) -> &str {
    g[0].as_str().unwrap_or("")
}

/// Ast.tla CanEmpty
pub fn can_empty(g: &J) -> bool {
    match op(g) {
        "just" => g[1].as_array().map_or(true, |a| a.is_empty()),
        "any" | "oneof" | "noneof" | "sel" | "tree" | "anyr" | "selr" => false,
        "end" | "empty" | "probe" | "cfgjust" | "cfgjustr" => true,
        "cust" | "ext" => g[1].as_u64() == Some(0) && g[2].as_bool() == Some(true),
        "then" | "ithen" | "theni" | "thenctx" | "ignctx" => can_empty(&g[1]) && can_empty(&g[2]),
        "delim" => can_empty(&g[1]) && can_empty(&g[2]) && can_empty(&g[3]),
        "padded" => can_empty(&g[1]),
        "group" | "grouparr" => g[1].as_array().unwrap().iter().all(can_empty),
        "or" => can_empty(&g[1]) || can_empty(&g[2]),
        "choice" | "choicev" => g[1].as_array().unwrap().iter().any(can_empty),
        "ornot" | "not" | "rewind" | "recover" | "ref" | "var" | "enum" | "cfgrep" | "cfgrepmin" | "cfgrepmax" | "cfgreptry" => true,
        "andis" => can_empty(&g[1]),
        "rep" => g[2].as_u64() == Some(0) || can_empty(&g[1]),
        "sep" => g[3].as_u64() == Some(0) || can_empty(&g[1]),
        "collect" | "run" => can_empty(&g[1]),
        "exact" => g[2].as_u64() == Some(0) || can_empty(&g[1]),
        "foldl" | "foldr" | "foldlw" | "foldrw" => can_empty(&g[1]) && can_empty(&g[2]),
        "withctx" | "mapctx" => can_empty(&g[2]),
        "nested" | "let" => can_empty(&g[2]),
        _ => can_empty(&g[1]),
    }
}

fn wf_iter(it: &J) -> bool {
    match op(it) {
        "rep" => wf(&it[1]) && !can_empty(&it[1]),
        "sep" => wf(&it[1]) && wf(&it[2]) && !can_empty(&it[1]),
        "enum" | "cfgrep" | "cfgrepmin" | "cfgrepmax" | "cfgreptry" => matches!(op(&it[1]), "rep" | "sep") && wf_iter(&it[1]),
        _ => false,
    }
}

/// Ast.tla WF
pub fn wf(g: &J) -> bool {
    match op(g) {
        "just" | "any" | "oneof" | "noneof" | "sel" | "end" | "empty" | "cust" | "ext" | "probe" | "cfgjust" | "cfgjustr" | "ref" | "var" | "tree" | "anyr" | "selr" => true,
        "then" | "ithen" | "theni" | "or" | "andis" | "thenctx" | "ignctx" | "nested" | "padded" | "let" => wf(&g[1]) && wf(&g[2]),
        "delim" => wf(&g[1]) && wf(&g[2]) && wf(&g[3]),
        "group" | "grouparr" | "choice" | "choicev" => g[1].as_array().unwrap().iter().all(wf),
        "collect" | "run" | "exact" => wf_iter(&g[1]),
        "foldl" | "foldlw" => wf(&g[1]) && wf_iter(&g[2]),
        "foldr" | "foldrw" => wf_iter(&g[1]) && wf(&g[2]),
        "recover" => {
            wf(&g[1])
                && match op(&g[2]) {
                    "via" => wf(&g[2][1]),
                    "skipuntil" | "retry" => wf(&g[2][1]) && wf(&g[2][2]) && !can_empty(&g[2][1]),
                    _ => true,
                }
        }
        "withctx" | "mapctx" => wf(&g[2]),
        _ => wf(&g[1]),
    }
}

pub struct Family {
    pub leaves: Vec<J>,
    pub unary: Vec<&'static str>,
    pub binary: Vec<&'static str>,
    pub alphabet: Vec<&'static str>,
}

pub fn family(name: &str) -> Family {
    let j = |t: &str| json!(["just", [t]]);
    let jj = |s: &str, t: &str| json!(["just", [s, t]]);
    match name {
        "peg" => Family {
            leaves: vec![j("a"), j("b"), jj("a", "b"), json!(["any"]), json!(["oneof", ["a", "b"]]), json!(["noneof", ["a"]]),
                         json!(["sel", ["a"]]), json!(["end"]), json!(["empty"]), json!(["cust", 1, true]), json!(["cust", 1, false]),
                         j("E"), json!(["cust", 2, true]), json!(["ext", 1, true]), json!(["ext", 2, false])],
            unary: vec!["ornot", "not", "rewind", "ignored", "mw", "map", "to", "filter", "trymap", "rep0", "rep1", "boxed", "tospan", "toslice"],
            binary: vec!["then", "ithen", "theni", "or", "andis", "choice", "choicev", "delim", "padded", "group", "grouparr", "choice3"],
            alphabet: vec!["a", "b", "E"],
        },
        "emit" => Family {
            leaves: vec![j("a"), j("b"), json!(["any"]), json!(["cust", 1, false]), json!(["cust", 2, true]),
                         json!(["validate", ["any"], "1", "F"]), json!(["validate", ["empty"], "0", "F"]), json!(["validate", ["just", ["a"]], "2", "F"])],
            unary: vec!["ornot", "not", "rewind", "validateF", "validate", "rep0", "rep12", "run0", "run0", "mw"],
            binary: vec!["then", "or", "andis", "choicev", "foldl", "sepc"],
            alphabet: vec!["a", "b"],
        },
        "err" => Family {
            leaves: vec![j("a"), j("b"), jj("a", "b"), json!(["any"]), json!(["end"]), json!(["cust", 1, false]), json!(["oneof", ["a", "b"]]), json!(["noneof", ["a"]])],
            unary: vec!["ornot", "rewind", "filter", "trymap", "trymapT", "trymapw", "rep0", "rep1", "map"],
            binary: vec!["then", "or", "andis", "choicev", "choice", "sepc"],
            alphabet: vec!["a", "b"],
        },
        "rep" => Family {
            leaves: vec![j("a"), j("b"), j(","), jj("a", "b"), json!(["any"])],
            unary: vec!["ornot", "repB", "runB", "exact2", "repcount", "repstr", "enumrep", "map"],
            binary: vec!["then", "or", "sepB", "foldl", "foldr", "sepexact", "enumsep", "sepcount", "seprun"],
            alphabet: vec!["a", "b", ","],
        },
        "spn" | "spng" => Family {
            leaves: vec![j("a"), jj("a", "b"), json!(["any"]), json!(["empty"]), j("b")],
            unary: if name == "spn" { vec!["tospan", "toslice", "mw", "ornot", "rewind", "rep0", "validateF", "trymapF"] } else { vec!["tospan", "mw", "ornot", "rewind", "rep0", "validateF", "trymapF"] },
            binary: vec!["then", "or", "foldlw", "foldrw", "then"],
            alphabet: if name == "spn" { vec!["a", "b", "E"] } else { vec!["a", "b"] },
        },
        "spnr" => Family {
            leaves: vec![j("a"), json!(["anyr"]), json!(["selr", ["a"]]), json!(["any"]), json!(["empty"]), j("b"), json!(["selr", ["a", "b"]])],
            unary: vec!["tospan", "mw", "ornot", "rewind", "rep0", "validateF", "trymapF"],
            binary: vec!["then", "or", "foldlw", "foldrw", "then"],
            alphabet: vec!["a", "b"],
        },
        "seek" => Family {
            leaves: vec![j("a"), jj("a", "b"), json!(["any"]), j("b")],
            unary: vec!["ornot", "rewind", "tospan", "rep0", "rep1", "run0"],
            binary: vec!["then", "andis", "or", "then", "or"],
            alphabet: vec!["a", "b"],
        },
        "rcv" => Family {
            leaves: vec![j("a"), j("b"), jj("a", "b"), json!(["any"])],
            unary: vec!["ornot", "rep0", "rep12", "validate", "recover", "recover", "map"],
            binary: vec!["then", "or", "choicev", "sepc"],
            alphabet: vec!["a", "b"],
        },
        "lbl" => Family {
            leaves: vec![j("a"), j("b"), jj("a", "b"), json!(["any"]), json!(["end"]), json!(["cust", 1, false])],
            unary: vec!["ornot", "label", "labelctx", "maperr", "maperrid", "validate", "rep0", "rewind"],
            binary: vec!["then", "or", "choicev", "andis"],
            alphabet: vec!["a", "b"],
        },
        "memo" => Family {
            leaves: vec![j("a"), j("b"), jj("a", "b"), json!(["any"]), json!(["cust", 1, false])],
            unary: vec!["ornot", "memo", "memo", "rewind", "trymap", "map", "rep0", "rep1"],
            binary: vec!["then", "or", "andis", "choicev"],
            alphabet: vec!["a", "b"],
        },
        "ctx" => Family {
            leaves: vec![j("a"), j("b"), jj("a", "b"), json!(["any"]), json!(["cfgjust"]), json!(["cfgjustr"]), json!(["mw", ["any"]])],
            unary: vec!["ornot", "mw", "withctx", "mapctx", "mapnum", "rep0", "cfgrep", "cfgrun"],
            binary: vec!["then", "or", "thenctx", "ignctx"],
            alphabet: vec!["a", "b"],
        },
        "rec" => Family {
            leaves: vec![j("a"), j("b"), j("("), j(")")],
            unary: vec!["ornot", "rep0", "map", "recA", "recB", "recC", "memo"],
            binary: vec!["then", "or", "delim"],
            alphabet: vec!["a", "b", "(", ")"],
        },
        "drp" => Family {
            leaves: vec![j("a"), j("b"), json!(["map", ["any"], "f"]), json!(["to", ["just", ["b"]], "k"]), json!(["sel", ["a"]]), json!(["any"])],
            unary: vec!["ornot", "map", "rep0", "exact2", "grouparr1", "recovervia", "mw", "rewind"],
            binary: vec!["then", "or", "grouparr", "grouparr3", "group", "foldl", "foldr", "choicev", "andis"],
            alphabet: vec!["a", "b"],
        },
        "nst" => Family {
            leaves: vec![j("a"), j("b"), json!(["any"]), json!(["validate", ["any"], "1", "F"]), json!(["cust", 1, false]), json!(["noneof", ["a"]])],
            unary: vec!["ornot", "rep0", "nested", "nested", "nested", "validateF", "tospan", "map"],
            binary: vec!["then", "or", "choicev", "then"],
            alphabet: vec!["a", "b", "(", ")"],
        },
        // C14: strings over digits, letters, underscore, every kind of whitespace / line terminator, multi-byte characters
        "txt" => Family { leaves: vec![], unary: vec![], binary: vec![],
            alphabet: vec!["0", "1", "7", "9", "a", "f", "z", "_", "S", "T", "N", "R", "V", "F", "X", "L", "P", "E", "+", "0", "a", "S", "N", "R", "g", "A", "@", "`", "H", "I", "K", "M", "/", ":"] },
        "txtb" => Family { leaves: vec![], unary: vec![], binary: vec![],
            alphabet: vec!["0", "1", "7", "9", "a", "f", "z", "_", "S", "T", "N", "R", "V", "F", "+", "0", "a", "S", "g", "A", "@", "`", "/", ":"] },
        "pratt" => Family { leaves: vec![], unary: vec![], binary: vec![], alphabet: vec!["a", "b", "+", "*", "-", "!", "^", "~"] },
        _ => panic!("unknown family {name}"),
    }
}

const BOUNDS: [(u64, i64); 10] = [(0, -1), (1, -1), (0, 1), (1, 2), (2, 2), (0, 2), (2, -1), (3, 3), (0, 0), (1, 1)];

fn non_empty(r: &mut Rng, f: &Family, budget: usize) -> J {
    for _ in 0..20 {
        let g = gen(r, f, budget);
        if !can_empty(&g) {
            return g;
        }
    }
    r.pick(&f.leaves.iter().filter(|l| !can_empty(l)).cloned().collect::<Vec<_>>()).clone()
}

pub fn gen(r: &mut Rng, f: &Family, budget: usize) -> J {
    if budget <= 1 || r.chance(1, 5) {
        return r.pick(&f.leaves).clone();
    }
    let nb = f.binary.len();
    let nu = f.unary.len();
    let k = r.below(nb + nu);
    if k < nu {
        let o = f.unary[k];
        let a = || {};
        let _ = a;
        let b = BOUNDS[r.below(BOUNDS.len())];
        match o {
            "map" => json!(["map", gen(r, f, budget - 1), "f"]),
            "to" => json!(["to", gen(r, f, budget - 1), "k"]),
            "filter" => json!(["filter", gen(r, f, budget - 1), "nfa"]),
            "trymap" => json!(["trymap", gen(r, f, budget - 1), "nfa"]),
            "trymapT" => json!(["trymap", gen(r, f, budget - 1), "T"]),
            "trymapF" => json!(["trymap", gen(r, f, budget - 1), "F"]),
            "trymapw" => json!(["trymapw", gen(r, f, budget - 1), "nfa"]),
            "validate" => json!(["validate", gen(r, f, budget - 1), (1 + r.below(3)).to_string(), "nfa"]),
            "validateF" => json!(["validate", gen(r, f, budget - 1), (1 + r.below(3)).to_string(), "F"]),
            "rep0" => json!(["collect", ["rep", non_empty(r, f, budget - 1), 0, -1], "vec"]),
            "rep1" => json!(["collect", ["rep", non_empty(r, f, budget - 1), 1, -1], "vec"]),
            "rep12" => json!(["collect", ["rep", non_empty(r, f, budget - 1), 1, 2], "vec"]),
            "run0" => json!(["run", ["rep", non_empty(r, f, budget - 1), 0, -1]]),
            "repB" => json!(["collect", ["rep", non_empty(r, f, budget - 1), b.0, b.1], "vec"]),
            "runB" => json!(["run", ["rep", non_empty(r, f, budget - 1), b.0, b.1]]),
            "exact2" => json!(["exact", ["rep", non_empty(r, f, budget - 1), b.0, b.1], 1 + r.below(3)]),
            "repcount" => json!(["collect", ["rep", non_empty(r, f, budget - 1), b.0, b.1], *r.pick(&["count", "count2", "unit"])]),
            "repstr" => json!(["collect", ["rep", non_empty(r, f, budget - 1), b.0, b.1], "str"]),
            "enumrep" => json!(["collect", ["enum", ["rep", non_empty(r, f, budget - 1), b.0, b.1]], "vec"]),
            "recover" => {
                let a = gen(r, f, budget - 1);
                let leaf = |r: &mut Rng| r.pick(&f.leaves).clone();
                let st = match r.below(5) {
                    0 => json!(["via", leaf(r)]),
                    1 => json!(["via", ["to", leaf(r), "k"]]),
                    2 => json!(["skipuntil", ["any"], r.pick(&[json!(["just", ["b"]]), json!(["end"]), json!(["just", ["a"]])]).clone()]),
                    3 => json!(["retry", ["any"], r.pick(&[json!(["just", ["b"]]), json!(["end"])]).clone()]),
                    _ => json!(["skipuntil", ["just", ["a"]], ["just", ["b"]]]),
                };
                json!(["recover", a, st])
            }
            "nested" => {
                let t = json!(["tree"]);
                let b = match r.below(5) {
                    0 => json!(["ithen", ["just", ["a"]], t]),
                    1 => json!(["theni", t, ["just", ["b"]]]),
                    2 => json!(["or", ["ithen", ["just", ["a"]], t], t]),
                    _ => t,
                };
                json!(["nested", gen(r, f, budget - 1), b])
            }
            "grouparr1" => json!(["grouparr", [gen(r, f, budget - 1)]]),
            "recovervia" => json!(["recover", gen(r, f, budget - 1), ["via", ["to", ["any"], "r"]]]),
            "label" => json!(["label", gen(r, f, budget - 1), *r.pick(&["L", "M"]), false]),
            "labelctx" => json!(["label", gen(r, f, budget - 1), *r.pick(&["L", "M"]), true]),
            "maperr" => json!(["maperr", gen(r, f, budget - 1), "tag"]),
            "maperrid" => json!(["maperr", gen(r, f, budget - 1), "id"]),
            "withctx" => json!(["withctx", r.pick(&[json!(["T", "a"]), json!(["S", ["a", "b"]]), json!(["I", 2]), json!(["T", "b"]), json!(["I", 3]), json!(["I", 1])]).clone(), gen(r, f, budget - 1)]),
            "mapctx" => json!(["mapctx", "f", gen(r, f, budget - 1)]),
            "mapnum" => json!(["map", gen(r, f, budget - 1), "num"]),
            "cfgrep" => json!(["collect", [*r.pick(&["cfgrep", "cfgrepmin", "cfgrepmax", "cfgreptry"]), ["rep", non_empty(r, f, budget - 1), b.0, b.1]], "vec"]),
            "cfgrun" => json!(["run", ["cfgrep", ["rep", non_empty(r, f, budget - 1), 0, -1]]]),
            // guarded recursion templates: a token is consumed before every self reference
            "recA" => json!([*r.pick(&["rec", "recd"]), ["or", ["then", non_empty(r, f, budget - 1), ["ref", 1]], r.pick(&f.leaves).clone()]]),
            "recB" => json!([*r.pick(&["rec", "recd"]), ["delim", ["ornot", ["ref", 1]], ["just", ["("]], ["just", [")"]]]]),
            "recC" => json!(["rec", ["collect", ["rep", ["or", ["delim", ["ref", 1], ["just", ["("]], ["just", [")"]]], non_empty(r, f, budget - 1)], 0, -1], "vec"]]),
            o => json!([o, gen(r, f, budget - 1)]),
        }
    } else {
        let o = f.binary[k - nu];
        let left = 1 + r.below(budget - 1);
        let right = (budget - 1).saturating_sub(left).max(1);
        let b = BOUNDS[r.below(BOUNDS.len())];
        let (lead, trail) = (r.chance(1, 2), r.chance(1, 2));
        match o {
            "choice" => json!(["choice", [gen(r, f, left), gen(r, f, right)]]),
            "choice3" => json!(["choice", [gen(r, f, left), gen(r, f, right), gen(r, f, 2)]]),
            "choicev" => {
                if r.chance(1, 3) {
                    json!(["choicev", [gen(r, f, left), gen(r, f, right), gen(r, f, 2)]])
                } else {
                    json!(["choicev", [gen(r, f, left), gen(r, f, right)]])
                }
            }
            "group" => json!(["group", [gen(r, f, left), gen(r, f, right)]]),
            "grouparr" => json!(["grouparr", [gen(r, f, left), gen(r, f, right)]]),
            "grouparr3" => json!(["grouparr", [gen(r, f, left), gen(r, f, right), gen(r, f, 2)]]),
            "delim" => json!(["delim", gen(r, f, left), gen(r, f, right.min(2)), gen(r, f, 2)]),
            "foldl" => json!(["foldl", gen(r, f, left), ["rep", non_empty(r, f, right), b.0, b.1], "g"]),
            "foldr" => json!(["foldr", ["rep", non_empty(r, f, left), b.0, b.1], gen(r, f, right), "g"]),
            "foldlw" => json!(["foldlw", gen(r, f, left), ["rep", non_empty(r, f, right), b.0, b.1], "g"]),
            "foldrw" => json!(["foldrw", ["rep", non_empty(r, f, left), b.0, b.1], gen(r, f, right), "g"]),
            "sepc" => json!(["collect", ["sep", non_empty(r, f, left), gen(r, f, right), 0, -1, lead, trail], "vec"]),
            "sepB" => json!(["collect", ["sep", non_empty(r, f, left), gen(r, f, right), b.0, b.1, lead, trail], "vec"]),
            "sepcount" => json!(["collect", ["sep", non_empty(r, f, left), gen(r, f, right), b.0, b.1, lead, trail], "count"]),
            "seprun" => json!(["run", ["sep", non_empty(r, f, left), gen(r, f, right), b.0, b.1, lead, trail]]),
            "sepexact" => json!(["exact", ["sep", non_empty(r, f, left), gen(r, f, right), b.0, b.1, lead, trail], 1 + r.below(3)]),
            "enumsep" => json!(["collect", ["enum", ["sep", non_empty(r, f, left), gen(r, f, right), b.0, b.1, lead, trail]], "vec"]),
            o => json!([o, gen(r, f, left), gen(r, f, right)]),
        }
    }
}

pub fn gen_input(r: &mut Rng, f: &Family, max_len: usize, tree: bool) -> Vec<&'static str> {
    gen_input_min(r, f, 0, max_len, tree)
}
pub fn gen_input_min(r: &mut Rng, f: &Family, min_len: usize, max_len: usize, tree: bool) -> Vec<&'static str> {
    let n = min_len + r.below(max_len + 1 - min_len.min(max_len));
    if tree {
        // token trees: a random balanced bracket sequence
        let mut v = vec![];
        let mut depth = 0;
        while v.len() + depth < n {
            match r.below(4) {
                0 if v.len() + depth + 2 <= n => {
                    v.push("(");
                    depth += 1;
                }
                1 if depth > 0 => {
                    v.push(")");
                    depth -= 1;
                }
                _ => v.push(*r.pick(&["a", "b"])),
            }
        }
        for _ in 0..depth {
            v.push(")");
        }
        return v;
    }
    if f.alphabet.contains(&"~") && f.alphabet.contains(&"^") && r.chance(3, 4) {
        // Pratt family: mostly expression-shaped inputs (operators between atoms, a few prefix / postfix symbols, some
        // noise), so that chains of operators of equal and of different power actually occur
        let syms = ["+", "*", "-", "!", "^", "~"];
        let few = [*r.pick(&syms), *r.pick(&syms), *r.pick(&syms)];
        let mut v: Vec<&'static str> = vec![];
        let mut want_atom = true;
        while v.len() < n {
            if r.chance(1, 12) {
                v.push(*r.pick(&f.alphabet));
            } else if want_atom {
                if r.chance(1, 4) {
                    v.push(*r.pick(&few));
                } else {
                    v.push(*r.pick(&["a", "b"]));
                    want_atom = false;
                }
            } else {
                v.push(*r.pick(&few));
                want_atom = r.chance(3, 4);
            }
        }
        return v;
    }
    (0..n).map(|_| *r.pick(&f.alphabet)).collect()
}

/// C09: a random operator table (1..6 operators over 6 symbols, 4 power levels, the same symbol
/// allowed as prefix and infix), as vec or tuple table, optionally followed by a rest capture
pub fn gen_pratt(r: &mut Rng) -> J {
    let n = 1 + r.below(6);
    let syms = ["+", "*", "-", "!", "^", "~"];
    let fixes = ["prefix", "postfix", "infixl", "infixr", "infixl"];
    // operator parsers: mostly a single symbol, sometimes a doubled symbol ("**" next to "*") or a choice of two
    let ops: Vec<J> = (0..n)
        .map(|_| {
            let s = *r.pick(&syms);
            let opg = match r.below(8) {
                0 => json!(["just", [s, s]]),
                1 => json!(["or", ["just", [s]], ["just", [*r.pick(&syms)]]]),
                _ => json!(["just", [s]]),
            };
            json!([*r.pick(&fixes), r.below(4), opg])
        })
        .collect();
    let table = if r.chance(1, 2) { "vec" } else { "tuple" };
    let p = json!(["pratt", ["oneof", ["a", "b"]], ops, table]);
    if r.chance(1, 3) {
        json!(["then", p, ["collect", ["rep", ["any"], 0, -1], "vec"]])
    } else {
        p
    }
}

/// C14: a text parser node with the grammar src/text.rs builds it from (mirrors spec/MC.tla TInt, TAIdent, ...)
pub fn text_node(name: &str, arg: &str) -> J {
    let tm = |c: &str| json!(["trymap", ["any"], c]);
    let run0 = |c: &str| json!(["run", ["rep", tm(c), 0, -1]]);
    let ident = |st: &str, co: &str| json!(["toslice", ["then", tm(st), run0(co)]]);
    let kw: Vec<String> = arg.chars().map(crate::val::char_to_tok).collect();
    match name {
        "ws" => json!(["text", "ws", "", ["toslice", run0("ws")]]),
        "iws" => json!(["text", "iws", "", ["toslice", run0("iws")]]),
        "nl" => json!(["text", "nl", "", ["toslice", ["newline"]]]),
        "digits" => json!(["text", "digits", arg, ["toslice", ["run", ["rep", tm(&format!("dig{arg}")), 1, -1]]]]),
        "int" => json!(["text", "int", arg, ["toslice", ["or", ["ignored", ["then", tm(&format!("nz{arg}")), run0(&format!("dig{arg}"))]], ["ignored", ["just", ["0"]]]]]]),
        "aident" => json!(["text", "aident", "", ident("aidstart", "aidcont")]),
        "uident" => json!(["text", "uident", "", ident("uidstart", "uidcont")]),
        "akw" => json!(["text", "akw", kw, ["toslice", ["sleq", ident("aidstart", "aidcont"), kw]]]),
        "ukw" => json!(["text", "ukw", kw, ["toslice", ["sleq", ident("uidstart", "uidcont"), kw]]]),
        n => panic!("unknown text parser {n}"),
    }
}

pub fn gen_text(r: &mut Rng, bytes: bool) -> J {
    let radix = *r.pick(&["2", "8", "10", "16", "36"]);
    let leaf = |r: &mut Rng| match r.below(if bytes { 8 } else { 10 }) {
        0 => text_node("ws", ""),
        1 => text_node("iws", ""),
        2 => text_node("digits", radix),
        3 => text_node("int", radix),
        4 => text_node("aident", ""),
        5 => text_node("uident", ""),
        6 => text_node("akw", *r.pick(&["a", "a1", "_", "fa"])),
        7 => text_node("int", "10"),
        8 => text_node("ukw", *r.pick(&["\u{e9}a", "_", "z9"])),
        _ => text_node("nl", ""),
    };
    let rest = json!(["collect", ["rep", ["any"], 0, -1], "vec"]);
    match r.below(6) {
        0 => leaf(r),
        1 | 2 => json!(["then", leaf(r), rest]),
        3 => json!(["then", ["tpadded", leaf(r)], rest]),
        4 => json!(["then", leaf(r), ["then", leaf(r), rest]]),
        _ => json!(["collect", ["rep", ["or", text_node("int", radix), ["or", text_node("uident", ""), ["or", text_node("digits", "36"), ["just", ["+"]]]]], 0, 4], "vec"]),
    }
}

/// A well-formed random grammar of the family with at most `budget` nodes (approximately).
pub fn gen_wf(r: &mut Rng, f: &Family, budget: usize) -> J {
    if f.leaves.is_empty() {
        return if f.alphabet.contains(&"S") { gen_text(r, !f.alphabet.contains(&"E")) } else { gen_pratt(r) };
    }
    loop {
        let g = gen(r, f, budget);
        if wf(&g) {
            return g;
        }
    }
}
