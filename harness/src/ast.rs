//! Grammar ASTs: the JSON form of the nested tuples of spec/Ast.tla.
use crate::val::{tok_to_char, Val};
use serde_json::Value as J;

pub type B = Box<G>;

#[derive(Clone, Debug)]
pub enum It {
    Rep(B, usize, i64),
    Sep(B, B, usize, i64, bool, bool),
    Enum(Box<It>),
    CfgRep(Box<It>, u8), // 0 = exactly(n), 1 = at_least(n), 2 = at_most(n)
    /// p.into_iter(): the items are the elements of p's output
    IntoIter(B),
}

#[derive(Clone, Debug)]
pub enum Strat {
    Via(B),
    SkipUntil(B, B),
    Retry(B, B),
    Nested(char, char, Vec<(char, char)>),
}

#[derive(Clone, Debug)]
pub struct PrattOp {
    pub fix: String,   // "prefix" | "postfix" | "infixl" | "infixr"
    pub bp: u16,
    /// the operator's own parser
    pub g: G,
}

#[derive(Clone, Debug)]
pub enum Ins {
    Next,
    Skip,
    Peek(char),
    Save,
    Rewind,
    Fail,
    Run(usize),
    Chk(usize),
    NextMaybe,
    PeekMaybe(char),
    SpanSince,
    State,
    Ctx,
}

#[derive(Clone, Debug)]
pub enum G {
    Just(Vec<char>),
    Any,
    OneOf(Vec<char>),
    NoneOf(Vec<char>),
    Sel(Vec<char>),
    AnyR,
    SelR(Vec<char>),
    End,
    Empty,
    Cust(usize, bool),
    /// custom(..) as a program over InputRef's public methods: instructions, sub-parsers
    Prog(Vec<Ins>, Vec<G>),
    Ext(usize, bool),
    ExtSub(B),
    Probe(i64),
    CfgJust,
    CfgJustR,
    Then(B, B),
    IThen(B, B),
    ThenI(B, B),
    Delim(B, B, B),
    Padded(B, B),
    Group(Vec<G>),
    GroupArr(Vec<G>),
    Or(B, B),
    Choice(Vec<G>),
    ChoiceV(Vec<G>),
    OrNot(B),
    Not(B),
    AndIs(B, B),
    Rewind(B),
    Map(B, String),
    To(B, String),
    Ignored(B),
    Filter(B, String),
    TryMap(B, String),
    TryMapW(B, String),
    Validate(B, String, String),
    Mw(B),
    ToSpan(B),
    ToSlice(B),
    Boxed(B),
    Lazy(B),
    Collect(It, String),
    Exact(It, usize),
    Run(It),
    Foldl(B, It, String),
    Foldr(It, B, String),
    FoldlW(B, It, String),
    FoldrW(It, B, String),
    Recover(B, Strat),
    Label(B, String, bool),
    MapErr(B, String),
    Memo(B),
    Rec(B),
    RecD(B), // Recursive::declare() + define()
    Ref(usize),
    Let(B, B),
    Var(usize),
    WithCtx(Val, B),
    ThenCtx(B, B),
    IgnCtx(B, B),
    MapCtx(String, B),
    WithState(B),
    Nested(B, B),
    Tree,
    Pratt(B, Vec<PrattOp>, String),
    /// a parser of chumsky::text: (name, argument: radix or keyword); the derived grammar in the AST is the
    /// specification's transcription of its construction and is not built here -- the real parser is
    Text(String, String),
    TPadded(B),
}

fn toks(j: &J) -> Result<Vec<char>, String> {
    Ok(j.as_array().ok_or_else(|| format!("expected token array: {j}"))?
        .iter()
        .map(|t| tok_to_char(t.as_str().unwrap_or("")))
        .collect())
}
fn bx(j: &J) -> Result<B, String> {
    Ok(Box::new(G::from_json(j)?))
}
fn gs(j: &J) -> Result<Vec<G>, String> {
    j.as_array().ok_or_else(|| format!("expected grammar array: {j}"))?.iter().map(G::from_json).collect()
}
fn st(j: &J) -> String {
    match j {
        J::String(s) => s.clone(),
        other => other.to_string(),
    }
}
fn us(j: &J) -> usize {
    j.as_u64().unwrap_or(0) as usize
}

impl It {
    pub fn from_json(j: &J) -> Result<It, String> {
        let a = j.as_array().ok_or_else(|| format!("iter not an array: {j}"))?;
        let op = a[0].as_str().ok_or("iter op")?;
        Ok(match op {
            "rep" => It::Rep(bx(&a[1])?, us(&a[2]), a[3].as_i64().unwrap_or(-1)),
            "sep" => It::Sep(
                bx(&a[1])?,
                bx(&a[2])?,
                us(&a[3]),
                a[4].as_i64().unwrap_or(-1),
                a[5].as_bool().unwrap_or(false),
                a[6].as_bool().unwrap_or(false),
            ),
            "intoiter" => It::IntoIter(bx(&a[1])?),
            "enum" => It::Enum(Box::new(It::from_json(&a[1])?)),
            "cfgrep" => It::CfgRep(Box::new(It::from_json(&a[1])?), 0),
            "cfgrepmin" => It::CfgRep(Box::new(It::from_json(&a[1])?), 1),
            "cfgrepmax" => It::CfgRep(Box::new(It::from_json(&a[1])?), 2),
            "cfgreptry" => It::CfgRep(Box::new(It::from_json(&a[1])?), 3),
            _ => return Err(format!("unknown iterator op {op}")),
        })
    }
}

impl Strat {
    pub fn from_json(j: &J) -> Result<Strat, String> {
        let a = j.as_array().ok_or_else(|| format!("strategy not an array: {j}"))?;
        let op = a[0].as_str().ok_or("strategy op")?;
        Ok(match op {
            "via" => Strat::Via(bx(&a[1])?),
            "skipuntil" => Strat::SkipUntil(bx(&a[1])?, bx(&a[2])?),
            "retry" => Strat::Retry(bx(&a[1])?, bx(&a[2])?),
            "nesteddelim" => {
                let others = a[3]
                    .as_array()
                    .ok_or("others")?
                    .iter()
                    .map(|p| {
                        let p = p.as_array().unwrap();
                        (tok_to_char(p[0].as_str().unwrap()), tok_to_char(p[1].as_str().unwrap()))
                    })
                    .collect();
                Strat::Nested(tok_to_char(a[1].as_str().unwrap_or("")), tok_to_char(a[2].as_str().unwrap_or("")), others)
            }
            _ => return Err(format!("unknown strategy {op}")),
        })
    }
}

impl G {
    pub fn from_json(j: &J) -> Result<G, String> {
        let a = j.as_array().ok_or_else(|| format!("grammar not an array: {j}"))?;
        let op = a[0].as_str().ok_or_else(|| format!("grammar op: {j}"))?;
        Ok(match op {
            "just" => G::Just(toks(&a[1])?),
            "any" => G::Any,
            "oneof" => G::OneOf(toks(&a[1])?),
            "noneof" => G::NoneOf(toks(&a[1])?),
            "sel" => G::Sel(toks(&a[1])?),
            "anyr" => G::AnyR,
            "selr" => G::SelR(toks(&a[1])?),
            "end" => G::End,
            "empty" => G::Empty,
            "cust" => G::Cust(us(&a[1]), a[2].as_bool().unwrap_or(false)),
            "ext" => G::Ext(us(&a[1]), a[2].as_bool().unwrap_or(false)),
            "extsub" => G::ExtSub(bx(&a[1])?),
            "probe" => G::Probe(a[1].as_i64().unwrap_or(0)),
            "cfgjust" => G::CfgJust,
            "cfgjustr" => G::CfgJustR,
            "then" => G::Then(bx(&a[1])?, bx(&a[2])?),
            "ithen" => G::IThen(bx(&a[1])?, bx(&a[2])?),
            "theni" => G::ThenI(bx(&a[1])?, bx(&a[2])?),
            "delim" => G::Delim(bx(&a[1])?, bx(&a[2])?, bx(&a[3])?),
            "padded" => G::Padded(bx(&a[1])?, bx(&a[2])?),
            "group" => G::Group(gs(&a[1])?),
            "grouparr" => G::GroupArr(gs(&a[1])?),
            "or" => G::Or(bx(&a[1])?, bx(&a[2])?),
            "choice" => G::Choice(gs(&a[1])?),
            "choicev" => G::ChoiceV(gs(&a[1])?),
            "ornot" => G::OrNot(bx(&a[1])?),
            "not" => G::Not(bx(&a[1])?),
            "andis" => G::AndIs(bx(&a[1])?, bx(&a[2])?),
            "rewind" => G::Rewind(bx(&a[1])?),
            "map" => G::Map(bx(&a[1])?, st(&a[2])),
            "to" => G::To(bx(&a[1])?, st(&a[2])),
            "ignored" => G::Ignored(bx(&a[1])?),
            "filter" => G::Filter(bx(&a[1])?, st(&a[2])),
            "trymap" => G::TryMap(bx(&a[1])?, st(&a[2])),
            "trymapw" => G::TryMapW(bx(&a[1])?, st(&a[2])),
            "validate" => G::Validate(bx(&a[1])?, st(&a[2]), st(&a[3])),
            "mw" => G::Mw(bx(&a[1])?),
            "tospan" => G::ToSpan(bx(&a[1])?),
            "toslice" => G::ToSlice(bx(&a[1])?),
            "boxed" => G::Boxed(bx(&a[1])?),
            "lazy" => G::Lazy(bx(&a[1])?),
            "collect" => G::Collect(It::from_json(&a[1])?, st(&a[2])),
            "exact" => G::Exact(It::from_json(&a[1])?, us(&a[2])),
            "run" => G::Run(It::from_json(&a[1])?),
            "foldl" => G::Foldl(bx(&a[1])?, It::from_json(&a[2])?, st(&a[3])),
            "foldr" => G::Foldr(It::from_json(&a[1])?, bx(&a[2])?, st(&a[3])),
            "foldlw" => G::FoldlW(bx(&a[1])?, It::from_json(&a[2])?, st(&a[3])),
            "foldrw" => G::FoldrW(It::from_json(&a[1])?, bx(&a[2])?, st(&a[3])),
            "recover" => G::Recover(bx(&a[1])?, Strat::from_json(&a[2])?),
            "label" => G::Label(bx(&a[1])?, st(&a[2]), a[3].as_bool().unwrap_or(false)),
            "maperr" => G::MapErr(bx(&a[1])?, st(&a[2])),
            "memo" => G::Memo(bx(&a[1])?),
            "rec" => G::Rec(bx(&a[1])?),
            "recd" => G::RecD(bx(&a[1])?),
            "ref" => G::Ref(us(&a[1])),
            "let" => G::Let(bx(&a[1])?, bx(&a[2])?),
            "var" => G::Var(us(&a[1])),
            "withctx" => G::WithCtx(Val::from_json(&a[1])?, bx(&a[2])?),
            "thenctx" => G::ThenCtx(bx(&a[1])?, bx(&a[2])?),
            "ignctx" => G::IgnCtx(bx(&a[1])?, bx(&a[2])?),
            "mapctx" => G::MapCtx(st(&a[1]), bx(&a[2])?),
            "withstate" => G::WithState(bx(&a[1])?),
            "nested" => G::Nested(bx(&a[1])?, bx(&a[2])?),
            "tree" => G::Tree,
            "text" => {
                let arg = match &a[2] {
                    J::String(s) => s.clone(),
                    J::Array(ts) => ts.iter().map(|t| tok_to_char(t.as_str().unwrap_or(""))).collect(),
                    other => other.to_string(),
                };
                G::Text(a[1].as_str().unwrap_or("").to_string(), arg)
            }
            "tpadded" => G::TPadded(bx(&a[1])?),
            "prog" => {
                let mut ins = vec![];
                for i in a[1].as_array().ok_or("prog instructions")? {
                    let i = i.as_array().ok_or("prog instruction")?;
                    ins.push(match i[0].as_str().unwrap_or("") {
                        "n" => Ins::Next,
                        "s" => Ins::Skip,
                        "p" => Ins::Peek(tok_to_char(i[1].as_str().unwrap_or(""))),
                        "sv" => Ins::Save,
                        "rw" => Ins::Rewind,
                        "f" => Ins::Fail,
                        "sub" => Ins::Run(i[1].as_u64().unwrap_or(1) as usize),
                        "chk" => Ins::Chk(i[1].as_u64().unwrap_or(1) as usize),
                        "nm" => Ins::NextMaybe,
                        "pm" => Ins::PeekMaybe(tok_to_char(i[1].as_str().unwrap_or(""))),
                        "ss" => Ins::SpanSince,
                        "st" => Ins::State,
                        "cx" => Ins::Ctx,
                        x => return Err(format!("unknown prog instruction {x}")),
                    });
                }
                let subs = a[2].as_array().ok_or("prog sub-parsers")?.iter().map(G::from_json).collect::<Result<Vec<_>, _>>()?;
                G::Prog(ins, subs)
            }
            "pratt" => {
                let ops = a[2]
                    .as_array()
                    .ok_or("pratt ops")?
                    .iter()
                    .map(|o| {
                        let o = o.as_array().unwrap();
                        Ok(PrattOp {
                            fix: o[0].as_str().unwrap().to_string(),
                            bp: o[1].as_u64().unwrap() as u16,
                            // the operator parser: a grammar; a bare string s stands for just(s)
                            g: match o[2].as_str() {
                                Some(sy) => G::Just(vec![tok_to_char(sy)]),
                                None => G::from_json(&o[2])?,
                            },
                        })
                    })
                    .collect::<Result<Vec<_>, String>>()?;
                G::Pratt(bx(&a[1])?, ops, st(&a[3]))
            }
            _ => return Err(format!("unknown grammar op {op}")),
        })
    }
}
