//! C12: histories of handle operations on recursive parsers (spec/RecCell.tla) replayed on real
//! `Recursive` values: declare / define / recursive() / clone / boxed / drop, and after every step every live
//! handle must answer every probe input as the specification says.
use chumsky::prelude::*;
use chumsky::recursive::{Direct, Indirect, Recursive};
use serde_json::{json, Value as J};
use std::panic::{catch_unwind, AssertUnwindSafe};

type Ex<'a> = chumsky::extra::Err<Rich<'a, char>>;
type Bx = Boxed<'static, 'static, &'static str, (), Ex<'static>>;
type Ind = Recursive<Indirect<'static, 'static, &'static str, (), Ex<'static>>>;
type Dir = Recursive<Direct<'static, 'static, &'static str, (), Ex<'static>>>;

enum H {
    Ind(Ind),
    Dir(Dir),
    Boxed(Bx),
}
impl H {
    /// a clone of the handle, as `x.clone()` gives it
    fn dup(&self) -> H {
        match self {
            H::Ind(r) => H::Ind(r.clone()),
            H::Dir(r) => H::Dir(r.clone()),
            H::Boxed(b) => H::Boxed(b.clone()),
        }
    }
    /// a clone of the handle used as a parser inside another definition
    fn as_parser(&self) -> Bx {
        match self {
            H::Ind(r) => r.clone().boxed(),
            H::Dir(r) => r.clone().boxed(),
            H::Boxed(b) => b.clone(),
        }
    }
    fn parse_ok(&self, s: &'static str) -> bool {
        let r = match self {
            H::Ind(r) => r.parse(s),
            H::Dir(r) => r.parse(s),
            H::Boxed(b) => b.parse(s),
        };
        r.has_output() && !r.has_errors()
    }
}

fn leaf(c: i64) -> char {
    if c == 1 {
        'a'
    } else {
        'b'
    }
}

/// leaf | "(" self ")" | "[" other "]", the alternatives the kind names
fn body(c: i64, me: Option<Bx>, other: Option<Bx>) -> Bx {
    let mut alts: Vec<Bx> = vec![just(leaf(c)).ignored().boxed()];
    if let Some(m) = me {
        alts.push(m.delimited_by(just('('), just(')')).boxed());
    }
    if let Some(o) = other {
        alts.push(o.delimited_by(just('['), just(']')).boxed());
    }
    choice(alts).boxed()
}

pub struct Stats {
    pub histories: usize,
    pub steps: usize,
    pub parses: usize,
    pub mismatches: Vec<J>,
    pub n_mismatch: usize,
}

fn replay_one(rec: &J, probes: &[&'static str], st: &mut Stats) {
    let hist = rec["hist"].as_array().unwrap();
    let mut hs: Vec<Option<H>> = vec![];
    let mut cell_of: Vec<i64> = vec![];
    for (n, step) in hist.iter().enumerate() {
        st.steps += 1;
        let op = step["op"].as_array().unwrap();
        let name = op[0].as_str().unwrap();
        let mut outcome = "ok".to_string();
        let mut note = String::new();
        match name {
            "declare" => {
                hs.push(Some(H::Ind(Recursive::declare())));
                cell_of.push(op[1].as_i64().unwrap());
            }
            "recursive" => {
                let c = op[1].as_i64().unwrap();
                let selfref = op[2].as_str().unwrap() == "self";
                let p: Dir = recursive(move |me| body(c, if selfref { Some(me.boxed()) } else { None }, None));
                hs.push(Some(H::Dir(p)));
                cell_of.push(c);
            }
            "define" => {
                let i = op[1].as_u64().unwrap() as usize - 1;
                let k = op[2].as_str().unwrap();
                let j = op[3].as_u64().unwrap() as usize;
                let c = cell_of[i];
                let me = if k == "self" || k == "both" { hs[i].as_ref().map(|h| h.as_parser()) } else { None };
                let other = if k == "other" || k == "both" { hs[j - 1].as_ref().map(|h| h.as_parser()) } else { None };
                let b = body(c, me, other);
                if let Some(H::Ind(r)) = hs[i].as_mut() {
                    let line = line!() + 1;
                    let res = catch_unwind(AssertUnwindSafe(|| r.define(b)));
                    if let Err(p) = res {
                        outcome = "panic".into();
                        let msg = p.downcast_ref::<String>().cloned().or_else(|| p.downcast_ref::<&str>().map(|s| s.to_string())).unwrap_or_default();
                        // "refused with a panic at the definition site": the message names the caller of define()
                        let site = format!("{}:{}", file!(), line);
                        if !msg.contains(&site) {
                            note = format!("the panic of the second define() does not name the definition site {site}: {msg}");
                        }
                    }
                } else {
                    outcome = "unsupported".into();
                }
            }
            "clone" => {
                let i = op[1].as_u64().unwrap() as usize - 1;
                let bx = op[2].as_bool().unwrap();
                let h = hs[i].as_ref().unwrap();
                hs.push(Some(if bx { H::Boxed(h.as_parser()) } else { h.dup() }));
                cell_of.push(cell_of[i]);
            }
            "drop" => {
                let i = op[1].as_u64().unwrap() as usize - 1;
                hs[i] = None;
            }
            other => {
                outcome = format!("unknown op {other}");
            }
        }
        let mut bad = !note.is_empty() || outcome != step["outcome"].as_str().unwrap();
        let mut real_answers = vec![];
        let answers = step["answers"].as_array().unwrap();
        for (i, exp) in answers.iter().enumerate() {
            let exp = exp.as_array().unwrap();
            let tag = exp[0].as_str().unwrap();
            let real = match (&hs[i], tag) {
                (None, _) => json!(["dropped"]),
                (Some(_), "undef") => json!(["undef"]),
                (Some(h), _) => {
                    let mut acc = vec![];
                    let mut dead = false;
                    for p in probes {
                        st.parses += 1;
                        match catch_unwind(AssertUnwindSafe(|| h.parse_ok(p))) {
                            Ok(b) => acc.push(b),
                            Err(_) => {
                                dead = true;
                                break;
                            }
                        }
                    }
                    if dead {
                        json!(["dead"])
                    } else {
                        json!(["ok", acc])
                    }
                }
            };
            if real != J::Array(exp.clone()) {
                bad = true;
            }
            real_answers.push(real);
        }
        if bad {
            st.n_mismatch += 1;
            if st.mismatches.len() < 10 {
                st.mismatches.push(json!({"history": hist.iter().map(|s| s["op"].clone()).collect::<Vec<_>>(), "step": n + 1, "op": step["op"],
                    "expected_outcome": step["outcome"], "real_outcome": outcome, "note": note,
                    "expected_answers": step["answers"], "real_answers": real_answers}));
            }
            return;
        }
    }
}

pub fn replay_file(path: &str) -> Result<Stats, String> {
    let text = std::fs::read_to_string(path).map_err(|e| e.to_string())?;
    let mut st = Stats { histories: 0, steps: 0, parses: 0, mismatches: vec![], n_mismatch: 0 };
    let mut probes: Vec<&'static str> = vec![];
    for line in text.lines() {
        // TLC prints the JSON as a TLA+ string: "RECCELL {...}" with inner quotes escaped
        let line = line.trim();
        if !line.starts_with("\"RECCELL ") {
            continue;
        }
        let s: String = serde_json::from_str(line).map_err(|e| format!("bad line: {e}"))?;
        let rec: J = serde_json::from_str(&s["RECCELL ".len()..]).map_err(|e| format!("bad record: {e}"))?;
        if probes.is_empty() {
            for p in rec["probes"].as_array().unwrap() {
                let w: String = p.as_array().unwrap().iter().map(|t| t.as_str().unwrap()).collect();
                probes.push(Box::leak(w.into_boxed_str()));
            }
        }
        st.histories += 1;
        replay_one(&rec, &probes, &mut st);
    }
    Ok(st)
}
