#!/usr/bin/env python3
"""Assembles /verif/seeded/<id>/ (patch.diff, seed_demo.rs, meta.json) from the scratch area where seeded changes
were confirmed and run (/tmp/seed), and writes seeded/README.md: which check catches which change.
The batch logs are read in order, so the latest run of a (seed, property) pair wins."""
import json, os, re, glob, shutil, sys

SRC = sys.argv[1] if len(sys.argv) > 1 else "/tmp/seed"
ROOT = os.path.dirname(os.path.dirname(os.path.abspath(__file__)))
DST = os.path.join(ROOT, "seeded")
os.makedirs(DST, exist_ok=True)

confirm, checks, first = {}, {}, {}
for f in sorted(glob.glob(os.path.join(SRC, "batch*.txt")), key=os.path.getmtime):
    for line in open(f, errors="replace"):
        m = re.match(r"SEED (\S+): demo_without_patch_rc=(\d+) unit_with_patch_rc=(\d+) \((.*?)\) demo_with_patch_rc=(\d+)", line)
        if m:
            confirm[m.group(1)] = {"demo_without_patch_rc": int(m.group(2)), "unit_tests_with_patch_rc": int(m.group(3)),
                                   "unit_tests_with_patch": m.group(4), "demo_with_patch_rc": int(m.group(5))}
        m = re.match(r"SEED (\S+): check (\S+) rc=(\d+)\s+(\d+) violation line\(s\); (.*)", line)
        if m:
            rec_ = {"rc": int(m.group(3)), "violation_lines": int(m.group(4)), "summary": m.group(5).strip()[:200]}
            first.setdefault(m.group(1), {}).setdefault(m.group(2), rec_)
            checks.setdefault(m.group(1), {})[m.group(2)] = rec_

rows = []
for d in sorted(glob.glob(os.path.join(SRC, "C*_*"))):
    sid = os.path.basename(d)
    if not os.path.exists(os.path.join(d, "patch.diff")):
        continue
    c = confirm.get(sid)
    meta = {}
    try:
        meta = json.load(open(os.path.join(d, "meta.json")))
    except Exception:
        pass
    valid = bool(c) and c["demo_without_patch_rc"] == 0 and c["unit_tests_with_patch_rc"] == 0 and c["demo_with_patch_rc"] != 0
    note = ""
    notes_file = os.path.join(ROOT, "seeded", "NOTES.json")
    if os.path.exists(notes_file):
        note = json.load(open(notes_file)).get(sid, "")
    if not valid and not note:
        continue
    out = os.path.join(DST, sid)
    os.makedirs(out, exist_ok=True)
    shutil.copy(os.path.join(d, "patch.diff"), out)
    shutil.copy(os.path.join(d, "seed_demo.rs"), out)
    res = checks.get(sid, {})
    caught = sorted(p for p, r in res.items() if r["rc"] == 1)
    m2 = {"id": sid, "property": meta.get("property", sid.split("_")[0]), "summary": meta.get("summary", ""), "needs": meta.get("needs", ""),
          "demo_cmd": meta.get("demo_cmd", ""), "origin": "independent sub-agent given only the property text and a scratch worktree",
          "confirmed": c, "ran": {p: r for p, r in res.items()}, "first_run": first.get(sid, {}), "caught_by": caught, "valid_on_current_tree": valid, "note": note,
          "how_run": "tools/try_seed.sh <seed dir> <scratch worktree> <property>: applies patch.diff in the worktree, runs `cargo test --offline --lib` and the demo, "
                     "then ./check <property> --tier quick from a copy of the committed /verif whose harness depends on the patched worktree"}
    json.dump(m2, open(os.path.join(out, "meta.json"), "w"), indent=1)
    rows.append(m2)

# seeds recorded by earlier sessions (their scratch area is gone): keep their meta.json as it is
have = {r["id"] for r in rows}
for d in sorted(glob.glob(os.path.join(DST, "C*_*"))):
    sid = os.path.basename(d)
    if sid in have:
        continue
    try:
        rows.append(json.load(open(os.path.join(d, "meta.json"))))
    except Exception:
        pass
rows.sort(key=lambda r: r["id"])

with open(os.path.join(DST, "README.md"), "w") as f:
    f.write("# Seeded changes\n\nEach directory holds a change to zesterer/chumsky that breaks one listed property while compiling and passing the 40 pinned tests, "
            "with a demonstration (`seed_demo.rs`, an integration test that fails with the change and passes without it) and `meta.json`.\n"
            "They were written by sub-agents that saw only the property text. `caught by` lists the quick checks that exit 1 with the change applied "
            "(for changes that were missed at first, the checks as strengthened afterwards: `first_run` in meta.json keeps the original outcome).\n\n")
    f.write("| id | property | change | needs | caught by (quick) |\n|---|---|---|---|---|\n")
    for r in rows:
        esc = lambda x: x.replace("|", "\\|").replace("\n", " ")
        cb = ", ".join(r["caught_by"]) if r["caught_by"] else ("— (" + (r["note"] or "missed") + ")")
        f.write(f"| {r['id']} | {r['property']} | {esc(r['summary'])[:260]} | {esc(r['needs'])[:200]} | {cb} |\n")
    n = len([r for r in rows if r["valid_on_current_tree"]])
    k = len([r for r in rows if r["valid_on_current_tree"] and r["caught_by"]])
    f.write(f"\n{k} of {n} valid seeded changes are caught by the quick check of their property.\n")
print(len(rows), "seeds;", len([r for r in rows if r["caught_by"]]), "caught")
