#!/usr/bin/env python3
"""Generates STATICALLY TYPED chumsky parsers (no boxing between nodes) for a fixed, seeded sample of grammars:
  harness/src/stat.rs  -- one `fn pK<'a>() -> impl Parser<..> + Clone` per grammar, written the way a user writes
                          combinator chains, plus the table of their ASTs
  spec/Stat.tla        -- the same ASTs as the TLA+ constant StatGrammars (family "stat" of MC.tla)
Both files are committed; re-run this script only to change the sample (it needs a built harness for `cvh gen`)."""
import json, os, subprocess, sys

ROOT = os.path.dirname(os.path.dirname(os.path.abspath(__file__)))
CVH = os.path.join(ROOT, "harness", "target", "debug", "cvh")

class Unsupported(Exception):
    pass

def ch(t):
    return {"E": "'\\u{e9}'", "W": "'\\u{1D11E}'"}.get(t, "'" + t.replace("\\", "\\\\").replace("'", "\\'") + "'")

def chars(ts):
    return "[" + ", ".join(ch(t) for t in ts) + "]"

def it(g, depth):
    """iterator node -> rust expression of an IterParser with items Val"""
    o = g[0]
    if o == "rep":
        e = f"({emit(g[1], depth)}).repeated().at_least({g[2]})"
        if g[3] >= 0:
            e += f".at_most({g[3]})"
        return e
    if o == "sep":
        e = f"({emit(g[1], depth)}).separated_by({emit(g[2], depth)}).at_least({g[3]})"
        if g[4] >= 0:
            e += f".at_most({g[4]})"
        if g[5]:
            e += ".allow_leading()"
        if g[6]:
            e += ".allow_trailing()"
        return e
    raise Unsupported(o)

def emit(g, depth=0):
    o = g[0]
    A = lambda k: emit(g[k], depth)
    if o == "just":
        if len(g[1]) == 1:
            return f"just::<_, &'a str, XR<'a>>({ch(g[1][0])}).map(|c: char| Val::S(vec![c]))"
        if len(g[1]) == 0:
            raise Unsupported("empty just")
        return f"just::<_, &'a str, XR<'a>>({chars(g[1])}).map(|s| Val::S(s.to_vec()))"
    if o == "any":
        return "any::<&'a str, XR<'a>>().map(Val::T)"
    if o == "oneof":
        return f"one_of::<_, &'a str, XR<'a>>({chars(g[1])}).map(Val::T)"
    if o == "noneof":
        return f"none_of::<_, &'a str, XR<'a>>({chars(g[1])}).map(Val::T)"
    if o == "sel":
        cs = " | ".join(ch(t) for t in g[1])
        return f"chumsky::select! {{ c @ ({cs}) => Val::m(\"sel\", Val::T(c)) }}"
    if o == "end":
        return "end::<&'a str, XR<'a>>().map(|()| Val::U)"
    if o == "empty":
        return "empty::<&'a str, XR<'a>>().map(|()| Val::U)"
    if o == "then":
        return f"({A(1)}).then({A(2)}).map(|(x, y)| Val::p(x, y))"
    if o == "ithen":
        return f"({A(1)}).ignore_then({A(2)})"
    if o == "theni":
        return f"({A(1)}).then_ignore({A(2)})"
    if o == "delim":
        return f"({A(1)}).delimited_by({A(2)}, {A(3)})"
    if o == "padded":
        return f"({A(1)}).padded_by({A(2)})"
    if o == "or":
        return f"({A(1)}).or({A(2)})"
    if o == "choice":
        if not 1 <= len(g[1]) <= 4:
            raise Unsupported("choice arity")
        return "choice((" + ", ".join(emit(x, depth) for x in g[1]) + ",))"
    if o == "group":
        n = len(g[1])
        vs = ", ".join(f"v{i}" for i in range(n))
        return "group((" + ", ".join(emit(x, depth) for x in g[1]) + f",)).map(|({vs},)| Val::G(vec![{vs}]))"
    if o == "grouparr":
        # group([p; N]) needs N parsers of ONE type: the elements must be the same grammar, built once and cloned
        if not g[1] or any(x != g[1][0] for x in g[1]):
            raise Unsupported("array group of different parsers")
        n = len(g[1])
        cl = ", ".join(["p.clone()"] * (n - 1) + ["p"])
        return f"{{ let p = {emit(g[1][0], depth)}; group([{cl}]).map(|a: [Val; {n}]| Val::A(a.into_iter().collect())) }}"
    if o == "exact":
        return f"{it(g[1], depth)}.collect_exactly::<[Val; {g[2]}]>().map(|a| Val::A(a.into_iter().collect()))"
    if o == "ornot":
        return f"({A(1)}).or_not().map(|o| match o {{ Some(v) => Val::O(Box::new(v)), None => Val::N }})"
    if o == "not":
        return f"({A(1)}).not().map(|()| Val::U)"
    if o == "andis":
        return f"({A(1)}).and_is({A(2)})"
    if o == "rewind":
        return f"({A(1)}).rewind()"
    if o == "map":
        return f"({A(1)}).map(|v| map_fn({json.dumps(g[2])}, v))"
    if o == "to":
        return f"({A(1)}).to(Val::k({json.dumps(g[2])}))"
    if o == "ignored":
        return f"({A(1)}).ignored().map(|()| Val::U)"
    if o == "filter":
        return f"({A(1)}).filter(|v| pred({json.dumps(g[2])}, v))"
    if o == "trymap":
        return f"({A(1)}).try_map(|v, span| if pred({json.dumps(g[2])}, &v) {{ Ok(v) }} else {{ Err(Rich::custom(span, \"tm\")) }})"
    if o == "validate":
        return (f"({A(1)}).validate(|v, e, em| {{ if !pred({json.dumps(g[3])}, &v) {{ em.emit(Rich::custom(e.span(), {json.dumps('v' + g[2])})); }} v }})")
    if o == "mw":
        return f"({A(1)}).map_with(|v, e| {{ let sp = e.span(); let c = e.ctx().clone(); let ic = e.state().count; Val::w(v, sp.start, sp.end, c, ic) }})"
    if o == "tospan":
        return f"({A(1)}).to_span().map(|s: chumsky::span::SimpleSpan| Val::Sp(s.start, s.end))"
    if o == "toslice":
        return f"({A(1)}).to_slice().map(|s: &'a str| slice_val(s.as_ptr() as usize, s.len()))"
    if o == "boxed":
        return f"({A(1)}).boxed()"
    if o == "memo":
        return f"({A(1)}).memoized()"
    if o == "collect":
        sink = g[2]
        if sink == "vec":
            return f"{it(g[1], depth)}.collect::<Vec<Val>>().map(Val::L)"
        if sink in ("count", "count2"):
            return f"{it(g[1], depth)}.count().map(|n| Val::I(n as i64))"
        raise Unsupported("sink " + sink)
    if o == "run":
        return f"{it(g[1], depth)}.map(|()| Val::U)"
    if o == "foldl":
        return f"({A(1)}).foldl({it(g[2], depth)}, |acc, x| Val::f({json.dumps(g[3])}, acc, x))"
    if o == "foldr":
        return f"{it(g[1], depth)}.foldr({A(2)}, |x, acc| Val::f({json.dumps(g[3])}, x, acc))"
    if o == "recover":
        s = g[2]
        if s[0] == "via":
            return f"({A(1)}).recover_with(via_parser({emit(s[1], depth)}))"
        if s[0] == "skipuntil":
            return f"({A(1)}).recover_with(skip_until(({emit(s[1], depth)}).ignored(), ({emit(s[2], depth)}).ignored(), || Val::E(\"su\".into())))"
        if s[0] == "retry":
            return f"({A(1)}).recover_with(skip_then_retry_until(({emit(s[1], depth)}).ignored(), ({emit(s[2], depth)}).ignored()))"
        raise Unsupported(s[0])
    if o == "label":
        e = f"({A(1)}).labelled({json.dumps(g[2])})"
        return e + ".as_context()" if g[3] else e
    if o == "maperr":
        if g[2] == "id":
            return f"({A(1)}).map_err(|e: Rich<'a, char>| e)"
        return f"({A(1)}).map_err(|e: Rich<'a, char>| Rich::custom(*e.span(), \"me\"))"
    if o == "rec":
        return f"recursive(|r{depth + 1}| {emit(g[1], depth + 1)})"
    if o == "ref":
        k = depth - g[1] + 1
        if k < 1:
            raise Unsupported("dangling ref")
        return f"r{k}.clone()"
    raise Unsupported(o)

def tla(j):
    if isinstance(j, bool):
        return "TRUE" if j else "FALSE"
    if isinstance(j, int):
        return str(j)
    if isinstance(j, str):
        return json.dumps(j)
    return "<<" + ", ".join(tla(x) for x in j) + ">>"

# hand-written shapes: zero-sized parsers, memoized zero-sized siblings, nested static choices
HAND = [
    ["or", ["to", ["memo", ["end"]], "k"], ["memo", ["any"]]],
    ["then", ["memo", ["any"]], ["or", ["memo", ["any"]], ["memo", ["end"]]]],
    ["then", ["ornot", ["memo", ["empty"]]], ["memo", ["any"]]],
    ["or", ["then", ["memo", ["just", ["a"]]], ["just", ["b"]]], ["then", ["memo", ["just", ["a"]]], ["just", ["a"]]]],
    ["choice", [["then", ["any"], ["end"]], ["then", ["any"], ["any"]], ["empty"]]],
    ["rec", ["or", ["delim", ["ornot", ["ref", 1]], ["just", ["a"]], ["just", ["b"]]], ["just", ["E"]]]],
    ["collect", ["sep", ["just", ["a"]], ["just", ["b", "b"]], 0, -1, True, False], "vec"],
    ["collect", ["sep", ["any"], ["just", ["b"]], 1, 2, False, True], "vec"],
    ["then", ["andis", ["just", ["a", "b"]], ["just", ["a"]]], ["any"]],
    ["then", ["not", ["just", ["a", "b"]]], ["collect", ["rep", ["any"], 0, -1], "vec"]],
]
# C19: hand-managed initialisation (group over an array, collect_exactly) with statically typed element parsers --
# parser types WITHOUT drop glue producing outputs WITH drop glue -- failing part-way, backtracked over, in check mode
MF = ["map", ["any"], "f"]
KB = ["to", ["just", ["b"]], "k"]
RESTC = ["collect", ["rep", ["any"], 0, -1], "vec"]
HAND += [
    ["grouparr", [MF, MF, MF]],
    ["or", ["grouparr", [MF, MF, MF]], RESTC],
    ["grouparr", [KB, KB]],
    ["then", ["ornot", ["grouparr", [KB, KB, KB]]], RESTC],
    ["collect", ["rep", ["grouparr", [["map", ["oneof", ["a", "b"]], "f"], ["map", ["oneof", ["a", "b"]], "f"]]], 0, -1], "vec"],
    ["or", ["exact", ["rep", ["map", ["just", ["a"]], "f"], 0, -1], 3], RESTC],
    ["exact", ["sep", ["map", ["any"], "f"], ["just", ["b"]], 0, -1, False, False], 2],
    ["then", ["ornot", ["exact", ["rep", ["to", ["any"], "k"], 0, 2], 3]], RESTC],
    ["recover", ["grouparr", [MF, MF]], ["via", ["to", ["any"], "r"]]],
]

# C11: memoized parsers nested in every position of a memoized parser's operand (first field, last field, both): the
# table is keyed by an ADDRESS, so which of them collide is a matter of layout -- the ones that do are witnessed known
# findings (known_findings.txt), the others must behave like their memo-free erasure
JA, JB = ["just", ["a"]], ["just", ["b"]]
HAND += [
    ["memo", ["or", JA, ["memo", JB]]],
    ["memo", ["then", ["ornot", JA], ["memo", JB]]],
    ["memo", ["choice", [JA, JB, ["memo", ["any"]]]]],
    ["memo", ["then", ["memo", JA], ["memo", JB]]],
    ["memo", ["or", ["memo", ["just", ["a", "b"]]], JA]],
    ["then", ["memo", ["or", JA, ["memo", JB]]], ["collect", ["rep", ["any"], 0, -1], "vec"]],
]

def existing():
    """the committed sample (harness/src/stat.rs ASTS): kept as it is, new shapes are appended (KEEP=0 draws afresh)"""
    path = os.path.join(ROOT, "harness", "src", "stat.rs")
    if os.environ.get("KEEP", "1") == "0" or not os.path.exists(path):
        return []
    out = []
    for line in open(path):
        line = line.strip()
        if line.startswith('r##"') and line.endswith('"##,'):
            out.append(json.loads(line[4:-4]))
    return out

def main():
    asts, seen = [], set()
    old = existing()
    for g in old + HAND:
        if json.dumps(g) in seen:
            continue
        asts.append(g)
        seen.add(json.dumps(g))
    plan = [("peg", 11, 60, 5), ("peg", 12, 40, 7), ("emit", 13, 30, 6), ("err", 14, 30, 6), ("rcv", 15, 30, 6), ("memo", 16, 40, 6), ("rec", 17, 30, 6), ("lbl", 18, 30, 6)]
    quota = {"peg": 28, "emit": 8, "err": 8, "rcv": 8, "memo": 12, "rec": 6, "lbl": 8}
    got = {k: 0 for k in quota}
    for fam, seed, n, size in ([] if old else plan):
        out = subprocess.run([CVH, "gen", "--family", fam, "--n", str(n), "--seed", str(seed), "--size", str(size)], stdout=subprocess.PIPE, text=True, check=True).stdout
        for line in out.splitlines():
            g = json.loads(line)
            key = json.dumps(g)
            if key in seen or got[fam] >= quota[fam] or len(key) < 30:
                continue
            try:
                emit(g)
            except Unsupported:
                continue
            seen.add(key)
            got[fam] += 1
            asts.append(g)
    with open(os.path.join(ROOT, "harness", "src", "stat.rs"), "w") as f:
        f.write("//! GENERATED by tools/gen_static.py -- statically typed parsers (no boxing between nodes) for a fixed sample of\n"
                "//! grammars; the same ASTs are the family \"stat\" of the specification (spec/Stat.tla).\n"
                "#![allow(unused_parens, clippy::all)]\n"
                "use crate::build::{slice_val, X};\nuse crate::run::{parse_one, Obs};\nuse crate::val::{map_fn, pred, Val};\n"
                "use chumsky::error::Rich;\nuse chumsky::prelude::*;\nuse chumsky::recovery::{skip_then_retry_until, skip_until, via_parser};\nuse chumsky::{IterParser, Parser};\n\n"
                "pub type XR<'a> = X<Rich<'a, char>>;\n\n")
        f.write("pub const ASTS: &[&str] = &[\n")
        for g in asts:
            f.write("    r##\"" + json.dumps(g) + "\"##,\n")
        f.write("];\n\n")
        for i, g in enumerate(asts):
            f.write(f"// {json.dumps(g)}\nfn p{i}<'a>() -> impl Parser<'a, &'a str, Val, XR<'a>> + Clone {{\n    {emit(g)}\n}}\n")
        f.write("\n/// run grammar number `idx` as a statically typed parser: the original value, or (clone = true) a deep clone of it\n"
                "pub fn run_static<'a>(idx: usize, input: &'a str, toks: &[char], mode: &str, clone: bool) -> Option<Obs> {\n    Some(match idx {\n")
        for i in range(len(asts)):
            f.write(f"        {i} => {{ let p = p{i}(); if clone {{ let c = p.clone(); drop(p); parse_one::<&str, Rich<char>, _>(&c, input, toks, mode) }} else {{ parse_one::<&str, Rich<char>, _>(&p, input, toks, mode) }} }}\n")
        f.write("        _ => return None,\n    })\n}\n")
        # C13: threads sharing one parser value through Arc<dyn Parser + Send + Sync> (parsers holding Rc -- recursive(),
        # boxed() -- are not Sync and are left out)
        def has(g, ops):
            return isinstance(g, list) and ((len(g) > 0 and isinstance(g[0], str) and g[0] in ops) or any(has(x, ops) for x in g))
        sync = [i for i, g in enumerate(asts) if not has(g, {"rec", "ref", "boxed"})]
        f.write("\npub const SYNC: &[usize] = &" + json.dumps(sync) + ";\n\n"
                "/// n threads parse every input of the pool (each starting at a different one, `rounds` times) through one shared\n"
                "/// Arc<dyn Parser + Send + Sync>; returns per thread the (accepted, output, errors) of every parse in pool order\n"
                "pub fn run_static_threads(idx: usize, pool: &[(String, Vec<char>)], n: usize, rounds: usize) -> Option<Vec<Vec<(bool, String, String)>>> {\n"
                "    use std::sync::Arc;\n    Some(match idx {\n")
        for i in sync:
            f.write(f"        {i} => {{ let arc: Arc<dyn Parser<'_, &str, Val, XR<'_>> + Send + Sync + '_> = Arc::new(p{i}()); threads_on(&arc, pool, n, rounds) }}\n")
        f.write("        _ => return None,\n    })\n}\n\n"
                "fn threads_on<'a>(arc: &std::sync::Arc<dyn Parser<'a, &'a str, Val, XR<'a>> + Send + Sync + 'a>, pool: &'a [(String, Vec<char>)], n: usize, rounds: usize) -> Vec<Vec<(bool, String, String)>> {\n"
                "    std::thread::scope(|s| {\n"
                "        let hs: Vec<_> = (0..n).map(|t| { let arc = arc.clone(); s.spawn(move || {\n"
                "            let mut res: Vec<Option<(bool, String, String)>> = vec![None; pool.len()];\n"
                "            for r in 0..rounds { for k in 0..pool.len() { let j = (k + t + r) % pool.len(); let (text, toks) = &pool[j];\n"
                "                let o = parse_one::<&str, Rich<char>, _>(&&*arc, &text[..], toks, \"E\");\n"
                "                let key = (o.ok, o.out.to_string(), format!(\"{:?}\", o.errs));\n"
                "                match &res[j] { None => res[j] = Some(key), Some(old) if *old != key => res[j] = Some((false, \"<unstable across rounds>\".into(), String::new())), _ => {} }\n"
                "            } }\n            res.into_iter().map(|x| x.unwrap()).collect::<Vec<_>>()\n        }) }).collect();\n"
                "        hs.into_iter().map(|h| h.join().unwrap()).collect()\n    })\n}\n")
    with open(os.path.join(ROOT, "spec", "Stat.tla"), "w") as f:
        f.write("-------------------------------- MODULE Stat --------------------------------\n"
                "(* GENERATED by tools/gen_static.py: the grammars for which the harness has statically typed parsers *)\n"
                "(* (harness/src/stat.rs); family \"stat\" of MC.tla.                                                   *)\n"
                "EXTENDS Integers\n"
                "StatGrammars == {\n" + ",\n".join("  " + tla(g) for g in asts) + "\n}\n"
                "=============================================================================\n")
    print(len(asts), "static grammars", got)

if __name__ == "__main__":
    main()
