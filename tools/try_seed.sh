#!/bin/bash
# usage: try_seed.sh <seed dir (patch.diff, seed_demo.rs, meta.json)> <scratch worktree of /repo> <PROP> [more props...]
# 1. confirms the seeded change in the scratch worktree (unit tests pass, demo fails with / passes without the patch)
# 2. runs ./check <PROP> (quick) from an isolated copy of /verif whose harness depends on the patched worktree,
#    so that neither /repo nor /verif's own build is disturbed.  One summary line per step.
# The copy (/tmp/vc_<worktree name>) keeps its harness build between seeds; remove it with the worktree.
sd=$1; wt=$2; shift; shift
[ -e $sd/seed_demo.rs ] || SKIP_CONFIRM=1
tag=$(basename $sd)
res=/tmp/seed/results; mkdir -p $res
feat=$(python3 -c "import json,re,sys; m=json.load(open('$sd/meta.json')); c=m.get('demo_cmd',''); r=re.search(r'--features[ =](\S+)', c); print(r.group(1) if r else '')")
fa=""; [ -n "$feat" ] && fa="--features $feat"
cd $wt && git checkout -q -- . && rm -rf tests/seed_demo.rs
if [ -z "$SKIP_CONFIRM" ]; then
mkdir -p tests && cp $sd/seed_demo.rs tests/seed_demo.rs
cargo test --offline --test seed_demo $fa > $res/${tag}_demo_clean.log 2>&1; clean_rc=$?
git apply $sd/patch.diff || { echo "SEED $tag: patch does not apply"; exit 3; }
cargo test --offline --lib > $res/${tag}_unit_patched.log 2>&1; unit_rc=$?
unit=$(grep "test result" $res/${tag}_unit_patched.log | head -1)
cargo test --offline --test seed_demo $fa > $res/${tag}_demo_patched.log 2>&1; patched_rc=$?
rm -rf tests/seed_demo.rs; rmdir tests 2>/dev/null
echo "SEED $tag: demo_without_patch_rc=$clean_rc unit_with_patch_rc=$unit_rc ($unit) demo_with_patch_rc=$patched_rc"
else
git apply $sd/patch.diff || { echo "SEED $tag: patch does not apply"; exit 3; }
fi
vc=/tmp/vc_$(basename $wt)
mkdir -p $vc
# the committed state of /verif (not the working tree, which may be mid-edit)
snap=$(mktemp -d /tmp/vsnap.XXXXXX); git -C /verif archive HEAD | tar -x -C $snap
rsync -a --delete --exclude work --exclude harness/target $snap/ $vc/; rm -rf $snap
sed -i "s#path = \"/repo\"#path = \"$wt\"#" $vc/harness/Cargo.toml
for p in "$@"; do
  cd $vc && timeout 3000 ./check $p --tier ${SEED_TIER:-quick} > $res/${tag}_check_$p.log 2>&1; rc=$?
  echo "SEED $tag: check $p rc=$rc  $(grep -c '^VIOLATION' $res/${tag}_check_$p.log) violation line(s); $(tail -1 $res/${tag}_check_$p.log | cut -c1-200)"
done
cd $wt && git checkout -q -- .
