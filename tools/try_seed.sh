#!/bin/bash
# usage: try_seed.sh <seed dir (patch.diff, seed_demo.rs, meta.json)> <scratch worktree of /repo> <PROP> [more props...]
# 1. confirms the seeded change in the scratch worktree (unit tests pass, demo fails with / passes without the patch)
# 2. runs ./check <PROP> (quick) from an isolated copy of /verif whose harness depends on the patched worktree,
#    so that neither /repo nor /verif's own build is disturbed.  One summary line per step.
sd=$1; wt=$2; shift; shift
tag=$(echo $sd | tr '/' '_')
feat=$(python3 -c "import json,re,sys; m=json.load(open('$sd/meta.json')); c=m.get('demo_cmd',''); r=re.search(r'--features[ =](\S+)', c); print(r.group(1) if r else '')")
fa=""; [ -n "$feat" ] && fa="--features $feat"
cd $wt && git checkout -q -- . && rm -rf tests/seed_demo.rs
mkdir -p tests && cp $sd/seed_demo.rs tests/seed_demo.rs
cargo test --offline --test seed_demo $fa > /tmp/ts_clean_$tag.log 2>&1; clean_rc=$?
git apply $sd/patch.diff || { echo "SEED $sd: patch does not apply"; exit 3; }
cargo test --offline --lib > /tmp/ts_unit_$tag.log 2>&1; unit_rc=$?
unit=$(grep "test result" /tmp/ts_unit_$tag.log | head -1)
cargo test --offline --test seed_demo $fa > /tmp/ts_patched_$tag.log 2>&1; patched_rc=$?
rm -rf tests/seed_demo.rs; rmdir tests 2>/dev/null
echo "SEED $sd: demo_without_patch_rc=$clean_rc unit_with_patch_rc=$unit_rc ($unit) demo_with_patch_rc=$patched_rc"
vc=/tmp/vc$tag
rm -rf $vc; mkdir -p $vc
rsync -a --exclude work --exclude harness/target --exclude .git /verif/ $vc/
sed -i "s#path = \"/repo\"#path = \"$wt\"#" $vc/harness/Cargo.toml
for p in "$@"; do
  cd $vc && timeout 1500 ./check $p --tier quick > /tmp/ts_check_${tag}_$p.log 2>&1; rc=$?
  echo "SEED $sd: check $p rc=$rc  $(grep -c '^VIOLATION' /tmp/ts_check_${tag}_$p.log) violation line(s); $(tail -1 /tmp/ts_check_${tag}_$p.log)"
  mkdir -p /tmp/seed/results; cp /tmp/ts_check_${tag}_$p.log /tmp/seed/results/
done
cd $wt && git checkout -q -- .
rm -rf $vc
