#!/bin/bash
# usage: try_patch.sh <patch file> <scratch worktree of /repo> <PROP> [VERIF_PARTS value]
# development aid: applies the patch in the scratch worktree and runs ./check <PROP> from a copy of /verif's WORKING TREE
# (/tmp/vc_<worktree name>) whose harness depends on the patched worktree; /repo and /verif's own build are untouched.
pf=$1; wt=$2; prop=$3; parts=$4
cd $wt && git checkout -q -- . && git apply $pf || { echo "patch does not apply"; exit 3; }
vc=/tmp/vc_$(basename $wt); mkdir -p $vc
rsync -a --delete --exclude work --exclude harness/target --exclude .git /verif/ $vc/
sed -i "s#path = \"/repo\"#path = \"$wt\"#" $vc/harness/Cargo.toml
cd $vc && VERIF_PARTS=$parts timeout 3000 ./check $prop --tier ${SEED_TIER:-quick} 2>&1 | tail -${TAILN:-12}
echo "rc=${PIPESTATUS[0]}"
cd $wt && git checkout -q -- .
