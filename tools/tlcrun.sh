#!/bin/bash
# usage: tlcrun.sh <cfg> <module.tla> [workers] [extra tlc args...]
# Runs TLC from /verif/spec, full log in /verif/work/<cfg>.log, REPLAY lines in /verif/work/<cfg>.replay,
# prints a short summary (errors, violated invariant, last state, state counts).
cfg=$1; mod=$2; workers=${3:-12}; shift; shift; [ $# -gt 0 ] && shift
name=$(basename "$cfg" .cfg)
mkdir -p /verif/work
cd /verif/spec
log=/verif/work/$name.log
JAVA_TOOL_OPTIONS="${JAVA_TOOL_OPTIONS:--Xss64m -Xmx8g -XX:+UseParallelGC}" timeout ${TLC_TIMEOUT:-600} tlc -workers $workers -metadir /verif/work/meta_$name -cleanup -noGenerateSpecTE -config "$cfg" "$@" "$mod" > $log 2>&1
rc=$?
grep '^"REPLAY' $log > /verif/work/$name.replay
grep -v '^"REPLAY\|^Computed\|^Linting\|^Parsing\|^Semantic' $log > /verif/work/$name.short
grep -n "^Error\|is violated\|states generated\|^Finished\|Finished computing" /verif/work/$name.short
if grep -q "^Error" /verif/work/$name.short; then
  echo "---- last state:"
  awk '/^State [0-9]+:/{buf=""} {buf=buf"\n"$0} END{print buf}' /verif/work/$name.short | head -80
fi
rm -rf /verif/work/meta_$name
exit $rc
