#!/usr/bin/env python3-vt
"""Validates MANIFEST.json and every evidence file against the schemas in /root/.vp (development aid)."""
import json, jsonschema, sys, os
root = os.path.dirname(os.path.dirname(os.path.abspath(__file__)))
m = json.load(open(os.path.join(root, 'MANIFEST.json')))
jsonschema.validate(m, json.load(open('/root/.vp/MANIFEST.schema.json')))
es = json.load(open('/root/.vp/EVIDENCE.schema.json'))
props = [json.loads(l)['id'] for l in open(os.path.join(root, 'properties.jsonl'))]
claimed = [c['property_id'] for c in m['checks']]
na = [x['property_id'] for x in m.get('not_applicable', [])]
assert sorted(claimed + na) == sorted(props), (claimed, na)
for c in m['checks']:
    if os.path.exists(c['evidence_file']):
        jsonschema.validate(json.load(open(c['evidence_file'])), es)
    else:
        print('missing evidence', c['evidence_file'])
print('manifest ok:', len(claimed), 'claimed,', na, 'not applicable')
