#!/usr/bin/env python3
"""Regenerates MANIFEST.json from the table below (kept next to the model plans)."""
import json, os, sys
sys.path.insert(0, os.path.dirname(__file__))
import models

ROOT = os.path.dirname(os.path.dirname(os.path.abspath(__file__)))

TEXT = {
 "C01": ("Every well-formed grammar of the PEG family up to the size bound x every input up to the length bound is run through the TLA+ machine (ChumskyVM) by TLC, which checks at every sub-parser return that acceptance, end position and value equal the PEG reference semantics (Peg.tla: RetRefines); every explored behaviour is then executed in the real crate (parse and check, probe extents included) and must equal the machine's observation; random larger cases recorded from the crate are validated by TLC.", "3,4,7"),
 "C02": ("Same pipeline over the repetition family: repeated/separated_by with all bound/flag combinations, collect sinks, collect_exactly, count, enumerate, foldl/foldr, configure; TLC checks the machine (both Repeated implementations, the SeparatedBy state machine) against the declarative greedy/possessive reference; all behaviours replayed in the crate.", "3,4,7"),
 "C03": ("TLC checks the result contract (ResultContract: output without errors => whole input consumed; no output => at least one error) on every behaviour of the PEG and repetition families; the harness additionally asserts the accessor consistency (has_output/has_errors/into_result) of the real ParseResult on every replayed case.", "3,4,7"),
 "C04": ("Both modes (Emit/Check) of every case are explored by TLC against the mode-free reference; in the crate, check(input) and parse(input) are run side by side on every replayed and recorded case and must agree on acceptance and on the full error list.", "3,4,7"),
 "C05": ("Emitting family (validate emitters under choices, repetitions, lookahead, and_is, rewind, folds): TLC checks that the secondary error list after every successful sub-parse equals the reference's emissions along the surviving path; error lists of successful parses are compared between machine and crate for every behaviour.", "3,4,5,7"),
 "C06": ("Error family under Rich/Simple/Cheap/EmptyErr: TLC checks FurthestFailure (position = furthest failure of the reference, merged expectations, custom errors preserved, span/found coherent); the last error of every rejected behaviour is compared with the crate, and Cheap/Simple/Rich spans are compared on the crate.", "3,4,5,7"),
 "C18": ("TLC checks InspConsistent (inspector = tokens before the cursor) in every reachable state of the machine; the crate runs with a snapshotting inspector (count + rolling hash) observed at map_with/probes and after the parse, compared with the machine and with the hash of the input prefix.", "3,4,7"),
 "C20": ("TLC checks NoPanic and the step bound on every behaviour for all four error types (incl. the zero-sized one); every case runs in the crate under catch_unwind and must return a ParseResult.", "3,4,7"),
}

def main():
    checks = []
    for pid in sorted(models.PLANS):
        text, ref = TEXT.get(pid, ("", "7"))
        checks.append({
            "property_id": pid,
            "quick_cmd": f"./check {pid} --tier quick",
            "thorough_cmd": f"./check {pid} --tier thorough",
            "evidence_file": f"/verif/evidence/{pid}.json",
            "replay_cmd_template": f"./check {pid} --replay {{path}}",
            "engine": "tla-vm",
            "level_claimed": {"category": "model_checking", "text": text, "design_ref": f"DESIGN.md sections {ref}"},
            "level_note": "Exhaustive only within the stated bounds (grammar size, input length, alphabet); beyond them random. Trusted: TLC, the harness's AST->parser builder and shared closure vocabulary, rustc.",
            "technique": "explicit TLA+ abstract machine + PEG reference semantics checked by TLC; TLC behaviours replayed into the real crate and recorded executions validated by TLC",
        })
    props = [json.loads(l)["id"] for l in open(os.path.join(ROOT, "properties.jsonl"))]
    na = [{"property_id": p, "reason": NA.get(p, "model and harness support not built yet in this round; see DESIGN.md section 7 for the plan")} for p in props if p not in models.PLANS]
    m = {
        "version": 1,
        "setup_cmd": "cd /verif/harness && CARGO_NET_OFFLINE=true cargo build --offline",
        "hooks": {"guard": "--cfg chumsky_verif", "enable": "harness/.cargo/config.toml passes --cfg chumsky_verif to every crate it builds (no source hook is needed: all observers use the public API)",
                  "baseline_off_cmd": "cd /repo && cargo test --workspace --no-fail-fast --offline", "source_commits": [], "add_only": True},
        "engines": [{"name": "tla-vm", "path": "/verif/spec", "serves_properties": sorted(models.PLANS),
                     "kind_free_text": "TLA+ specification (ChumskyVM.tla machine, Peg.tla reference, MC.tla models) checked by TLC; Rust harness (/verif/harness) builds real chumsky parsers from the same ASTs for replay and trace recording; driver ./check"}],
        "checks": checks,
        "not_applicable": na,
        "notes": "See DESIGN.md. Known findings: known_findings.txt. Seeded changes: seeded/.",
    }
    json.dump(m, open(os.path.join(ROOT, "MANIFEST.json"), "w"), indent=1)

NA = {}
if __name__ == "__main__":
    main()
