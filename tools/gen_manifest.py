#!/usr/bin/env python3
"""Regenerates MANIFEST.json from the table below (kept next to the model plans)."""
import json, os, sys
sys.path.insert(0, os.path.dirname(__file__))
import models

ROOT = os.path.dirname(os.path.dirname(os.path.abspath(__file__)))

TEXT = {
 "C01": ("Every well-formed grammar of the PEG family up to the size bound x every input up to the length bound is run through the TLA+ machine (ChumskyVM) by TLC, which checks at every sub-parser return that acceptance, end position and value equal the PEG reference semantics (Peg.tla: RetRefines); every explored behaviour is then executed in the real crate (parse and check, probe extents included) and must equal the machine's observation; random larger cases recorded from the crate are validated by TLC.", "3,4,7"),
 "C02": ("Same pipeline over the repetition family: repeated/separated_by with all bound/flag combinations, collect sinks, collect_exactly, count, enumerate, foldl/foldr, configure; TLC checks the machine (both Repeated implementations, the SeparatedBy state machine) against the declarative greedy/possessive reference; all behaviours replayed in the crate.", "3,4,7"),
 "C03": ("TLC checks the result contract (ResultContract: output without errors => whole input consumed; no output => at least one error) on every behaviour of the PEG and repetition families; the harness additionally asserts the accessor consistency (has_output/has_errors/into_result) of the real ParseResult on every replayed case.", "3,4,7"),
 "C04": ("Both modes (Emit/Check) of every case are explored by TLC against the mode-free reference; in the crate, check(input) and parse(input) are run side by side on every replayed and recorded case and must agree on acceptance and on the full error list.", "3,4,7"),
 "C05": ("Emitting family (validate emitters under choices, repetitions, lookahead, and_is, rewind, folds): TLC checks that the secondary error list after every successful sub-parse equals the reference's emissions along the surviving path; error lists of successful parses are compared between machine and crate for every behaviour.", "3,4,5,7"),
 "C06": ("Error family under Rich/Simple/Cheap/EmptyErr: TLC checks FurthestFailure (position = furthest failure of the reference, merged expectations, custom errors preserved, span/found coherent); the last error of every rejected behaviour is compared with the crate, and Cheap/Simple/Rich spans are compared on the crate.", "3,4,5,7"),
 "C07": ("Span family: every node of the C01/C02 grammar class may be wrapped in to_span / to_slice / map_with / validate / try_map / foldl_with / foldr_with captures; the machine computes spans exactly as each Input implementation does (byte offsets for &str, indices for slices, token-carried gapped spans for Input::map over slices and streams) and TLC checks them against the reference span function (first consumed token start .. last consumed token end, empty span before the following token for empty matches) plus SpansWellFormed; all behaviours are replayed in the crate, where to_slice additionally asserts pointer identity with the caller's buffer.", "3,4,7"),
 "C08": ("Recovery family: recover_with(via_parser | skip_until | skip_then_retry_until) at arbitrary positions and nested inside each other; TLC checks the machine (one action per step of recovery.rs) against the declarative strategy rules of the reference (transparent on success, exactly one extra error on recovery, consumes nothing when both fail, least-k skip, error-free retry); outputs and complete error lists of every behaviour are compared with the crate.", "3,4,7"),
 "C09": ("Pratt family: operator tables (prefix/postfix/infix-left/infix-right, equal powers, same symbol twice / as prefix and infix) x all token strings up to the bound; TLC checks the machine's transcription of pratt_go against the textbook binding-power algorithm of the reference and the PrattFlatten invariant; tuple and Vec tables are replayed in the crate and must agree with the machine's tree, spans and errors.", "3,4,7"),
 "C10": ("The same cases are run through every Input implementation (&str, &[T], &[T;N], Stream, boxed Stream, Input::map over slice and stream, with_context, map_span, IoInput, &[u8]); the machine models each kind's span construction; the crate's results per kind are compared with the machine and, kind against plain slice, with each other after the documented span re-basing; a counting iterator under Stream asserts single in-order pulls.", "3,4,7"),
 "C11": ("Memo family: memoized() at every subset of nodes of bounded grammars, shared memoized values used several times (let/var), left-recursive templates cut by memoization; TLC checks the machine's memo table protocol (key, in-progress marker, stored error) against the memo-erased reference and the step bound for left recursion; in the crate the memoized grammar is also compared against its memo-free erasure.", "3,4,5,7"),
 "C12": ("Recursive templates (right recursion, nested delimiters, mutual recursion, token trees, two self references) with environments; TLC checks the machine against the reference, whose rec/ref denotation is the unrolling; in the crate every recursive grammar is also compared against its k-fold syntactic unrolling.", "3,4,7"),
 "C13": ("Histories: a case is a grammar plus a sequence of inputs parsed one after the other through ONE parser value; the machine's ANextParse action creates the fresh per-parse state Parser::parse creates (cursor, pending and secondary errors, memo table, caller-supplied state) and TLC checks every parse of every enumerated history against the reference (each result depends on its own input only); the crate runs each history through the original value, a clone, a reference, Box, Rc, Arc, a second boxed() and Either (handles rotated over the parses), every parse's result must equal the machine's, must not depend on the handle, and must equal a fresh parser's result on that input; OS threads sharing one parser are exercised by the harness only (no schedule control).", "3,4,7,8"),
 "C14": ("Text family: every parser of chumsky::text (int, digits, ascii/unicode ident and keyword, whitespace, inline_whitespace, newline, padded) is transcribed into the grammar src/text.rs builds it from (try_map over character classes, repetition, or, to_slice, the custom newline parser, skip_while for padded) and run by the machine; TLC checks at every return of a text parser that it matched exactly the prefix prescribed by an independent, declarative definition of its documented language (TextRefines / TextMatch) with the matched slice as output, for all strings up to the bound over an alphabet of digits, letters, underscore, all whitespace and line-terminator classes, a multi-byte letter and punctuation, radix 2/8/10/16/36; the real text parsers (not the transcription) are then run on the same cases on &str and &[u8] and compared with the machine, plus random longer strings validated by TLC. regex() is outside the specification (section 8).", "3,4,7,8"),
 "C15": ("Context family: with_ctx / map_ctx / then_with_ctx / ignore_with_ctx providers at arbitrary nodes, configurable just (owned and by reference) and repeated().configure(exactly/at_least/at_most); TLC checks that every context read equals the reference's environment-passing value and that configured parsers match like statically configured ones; outputs embedding the observed contexts are compared with the crate.", "3,4,7"),
 "C16": ("Token-tree family: inputs are balanced bracket sequences read as token trees (a group is one token holding an inner input), supplied as nested slices and through Input::map with global gapped spans; grammars put a.nested_in(b) at arbitrary nodes, b being a group selector alone or inside then/or; the machine models NestedIn::go and InputRef::with_input (fresh error state and memo table for the inner parse, inner parser followed by end(), inner secondary errors and pending error re-homed at the outer cursor, outer cursor advanced by b only) and TLC checks it against the reference (inner parser must match exactly the tokens of that group, outer position advances by what b consumed, emissions and failures surface); outputs and full error lists are compared with the crate.", "3,4,7"),
 "C17": ("Label family: labelled / as_context / map_err(id|retag) at every subset of nodes plus templates with a pending error left behind by a successful decorated parser; TLC checks the machine (label.rs, MapErrWithState) against the erasure reference; in the crate the decorated grammar is compared with its undecorated erasure on acceptance, outputs, error count and spans, and the full Rich errors are compared with the machine.", "3,4,7"),
 "C18": ("TLC checks InspConsistent (inspector = tokens before the cursor) in every reachable state of the machine; the crate runs with a snapshotting inspector (count + rolling hash) observed at map_with/probes and after the parse, compared with the machine and with the hash of the input prefix.", "3,4,7"),
 "C19": ("Ownership accounting: every value made by a user mapper carries a tracked allocation in the harness; the machine counts the tracked values lost without being dropped at the sites that manage initialisation by hand (group over an array of parsers, collect_exactly) and TLC checks NoLeak on the drp families (arrays failing part-way, inside repetition, choice and recovery); in the crate the number of values still alive while the result is held minus those inside the output must equal the machine's count (zero), nothing may remain after the result is dropped and nothing may be dropped twice, in parse and check mode.", "3,4,7"),
 "C20": ("TLC checks NoPanic and the step bound on every behaviour for all four error types (incl. the zero-sized one); every case runs in the crate under catch_unwind and must return a ParseResult.", "3,4,7"),
}

def main():
    checks = []
    for pid in sorted(models.PLANS):
        text, ref = TEXT.get(pid, ("", "7"))
        checks.append({
            "property_id": pid,
            "quick_cmd": f"./check {pid} --tier quick",
            "thorough_cmd": f"./check {pid} --tier thorough",
            "evidence_file": f"/verif/evidence/{pid}.json",
            "replay_cmd_template": f"./check {pid} --replay {{path}}",
            "engine": "tla-vm",
            "level_claimed": {"category": "model_checking", "text": text, "design_ref": f"DESIGN.md sections {ref}"},
            "level_note": "Exhaustive only within the stated bounds (grammar size, input length, alphabet); beyond them random. Trusted: TLC, the harness's AST->parser builder and shared closure vocabulary, rustc.",
            "technique": "explicit TLA+ abstract machine + PEG reference semantics checked by TLC; TLC behaviours replayed into the real crate and recorded executions validated by TLC",
        })
    props = [json.loads(l)["id"] for l in open(os.path.join(ROOT, "properties.jsonl"))]
    na = [{"property_id": p, "reason": NA.get(p, "model and harness support not built yet in this round; see DESIGN.md section 7 for the plan")} for p in props if p not in models.PLANS]
    m = {
        "version": 1,
        "setup_cmd": "cd /verif/harness && CARGO_NET_OFFLINE=true cargo build --offline",
        "hooks": {"guard": "--cfg chumsky_verif", "enable": "harness/.cargo/config.toml passes --cfg chumsky_verif to every crate it builds (no source hook is needed: all observers use the public API)",
                  "baseline_off_cmd": "cd /repo && cargo test --workspace --no-fail-fast --offline", "source_commits": [], "add_only": True},
        "engines": [{"name": "tla-vm", "path": "/verif/spec", "serves_properties": sorted(models.PLANS),
                     "kind_free_text": "TLA+ specification (ChumskyVM.tla machine, Peg.tla reference, MC.tla models) checked by TLC; Rust harness (/verif/harness) builds real chumsky parsers from the same ASTs for replay and trace recording; driver ./check"}],
        "checks": checks,
        "not_applicable": na,
        "notes": "See DESIGN.md. Known findings: known_findings.txt. Seeded changes: seeded/.",
    }
    json.dump(m, open(os.path.join(ROOT, "MANIFEST.json"), "w"), indent=1)

NA = {}
if __name__ == "__main__":
    main()
