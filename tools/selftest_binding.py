#!/usr/bin/env python3
"""Demonstrates that the specification is bound to the code (DESIGN.md section 4.6): records executions of the real
crate, corrupts single fields of a few recorded observations -- an output token, an error span, a probe event, the
acceptance flag -- and has TLC validate the lot.  The untouched records must be accepted, every corrupted one rejected.
Exit 0 iff that is what happens.  (Development aid, not a registered check; needs a built harness.)"""
import copy, importlib.machinery, importlib.util, json, os, subprocess, sys

ROOT = os.path.dirname(os.path.dirname(os.path.abspath(__file__)))
loader = importlib.machinery.SourceFileLoader("check", os.path.join(ROOT, "check"))
spec = importlib.util.spec_from_loader("check", loader)
check = importlib.util.module_from_spec(spec)
loader.exec_module(check)


def first_token(v):
    """path to the first ["T", tok] inside an output value, or None"""
    if isinstance(v, list):
        if len(v) == 2 and v[0] == "T" and isinstance(v[1], str):
            return []
        for i, x in enumerate(v):
            p = first_token(x)
            if p is not None:
                return [i] + p
    return None


def main():
    check.build_harness()
    os.makedirs(check.WORK, exist_ok=True)
    cases = os.path.join(check.WORK, "selftest.ndjson")
    p = check.run_harness(["record", "--prop", "ALL", "--family", "pegI" if False else "peg", "--n", "300", "--seed", "7", "--size", "7", "--len", "6",
                           "--kinds", "str", "--etys", "rich", "--out", cases, "--minlen", "0"])
    if p.returncode != 0:
        sys.stderr.write(p.stderr[-2000:])
        return 2
    recs = [json.loads(l) for l in open(cases)]
    corrupted = {}
    kinds = ["token", "span", "ok", "errcount"]
    for i, r in enumerate(recs):
        if len(corrupted) >= 8:
            break
        kind = kinds[len(corrupted) % len(kinds)]
        r2 = copy.deepcopy(r)
        if kind == "token" and r["res"]["ok"] and r["mode"] == "E":
            path = first_token(r2["res"]["out"])
            if path is None:
                continue
            v = r2["res"]["out"]
            for k in path:
                v = v[k]
            v[1] = "b" if v[1] != "b" else "a"
        elif kind == "span" and r["res"]["errs"]:
            r2["res"]["errs"][-1]["e"] += 1
        elif kind == "ok":
            r2["res"]["ok"] = not r2["res"]["ok"]
        elif kind == "errcount" and r["res"]["errs"]:
            r2["res"]["errs"] = r2["res"]["errs"] + [r2["res"]["errs"][-1]]
        else:
            continue
        recs[i] = r2
        corrupted[i + 1] = kind
    m = {"fam": "peg", "size": 1, "len": 0}
    invs = ["Verdict"] + check.models.DEFAULT_INVARIANTS
    try:
        r = check.tlc("selftest_binding", check.cfg_text(m, "TraceCases", invs, check.kf_sites()), "MC.tla", recorded=recs)
    except check.ToolError as e:
        print("tool error:", e)
        return 2
    per = {}
    for cid, sites, ok, _ in r["verdicts"]:
        per.setdefault(cid, []).append(ok)      # a match on a listed known-finding branch is an acceptance too
    wrong = []
    for cid in range(1, len(recs) + 1):
        accepted = any(per.get(cid, []))
        if (cid in corrupted) == accepted:
            wrong.append((cid, corrupted.get(cid, "untouched"), "accepted" if accepted else "rejected"))
    print(f"{len(recs)} recorded executions, {len(corrupted)} corrupted ({sorted(set(corrupted.values()))}); "
          f"accepted {sum(1 for c in per if any(per[c]))}, rejected {sum(1 for c in per if not any(per[c]))}")
    for w in wrong[:10]:
        print("  UNEXPECTED:", w)
    print("binding self-test:", "ok" if not wrong else "FAILED")
    return 0 if not wrong else 1


if __name__ == "__main__":
    sys.exit(main())
