"""Which model configurations decide which property, per tier.

A part is either
  exhaustive: TLC enumerates family `fam` (all well-formed grammars <= size nodes x all inputs <= len
              over `alphabet` x kinds x etys x modes), checks the invariants, prints one REPLAY line per
              behaviour; the harness replays every line in the real crate.
  recorded:   the harness draws n random cases of family `fam` (grammars <= ~size nodes, inputs <= len),
              runs the real crate, records observations; TLC validates them (Verdict) and checks the
              same invariants on them.
"""

DEFAULT_INVARIANTS = ["RetRefines", "InspConsistent", "CursorInBounds", "ResultContract", "FurthestFailure", "FurthestPos", "NoPanic", "StepBound"]

ALL_ETYS = ["rich", "simple", "cheap", "empty"]
INV_SPANS = DEFAULT_INVARIANTS + ["SpansWellFormed"]
ALL_KINDS = ["str", "slice", "array", "stream", "bstream", "mapped", "mstream", "wctx", "mapspan", "io", "bytes"]
# &Graphemes: tokens are grapheme clusters (G = e + combining acute, U = a two-code-point flag), spans byte offsets
# left-recursive grammars have no PEG denotation (the reference would not terminate): machine-only invariants
NO_DEN = ["InspConsistent", "CursorInBounds", "NoPanic", "StepBound"]
# the repository's example grammars (family exT): a JSON-ish and a parenthesis/identifier alphabet
EXJ = ["[", "]", ",", "1", "n", "S"]
EXP = ["(", ")", "+", "a", ",", "S"]
INV_TEXT = DEFAULT_INVARIANTS + ["TextRefines"]


def ex(name, fam, size, length, **kw):
    d = {"kind": "exhaustive", "name": name, "fam": fam, "size": size, "len": length}
    d.update(kw)
    return d


def rec(name, fam, n, size, length, **kw):
    d = {"kind": "recorded", "name": name, "fam": fam, "n": n, "size": size, "len": length}
    d.update(kw)
    return d


def deep(name, grammars, depths, **kw):
    d = {"kind": "deep", "name": name, "grammars": grammars, "depths": depths, "fam": "peg"}
    d.update(kw)
    return d


PLANS = {
    "C01": {
        "quick": [ex("peg2", "peg", 2, 3, alphabet=["a", "b", "Z"]), ex("pegI2", "pegI", 2, 3, modes=["E"]), ex("stat", "stat", 1, 3, alphabet=["a", "b", "E"], kinds=["static", "staticc", "str"]),
                  ex("progT", "progT", 1, 4, alphabet=["a", "b", "!"]),
                  rec("pegR", "peg", 1500, 8, 8)],
        "thorough": [ex("peg2", "peg", 2, 4, alphabet=["a", "b", "E"]), ex("peg3", "peg", 3, 3), ex("pegI3", "pegI", 3, 3, timeout=3000), ex("stat", "stat", 1, 5, alphabet=["a", "b", "E"], kinds=["static", "staticc", "str"]),
                     rec("pegR", "peg", 20000, 10, 10)],
    },
    "C02": {
        "quick": [ex("repT", "repT", 1, 3, alphabet=["a", ","], modes=["E"]), ex("rep2", "rep", 2, 3, alphabet=["a", "b", ","]), rec("repR", "rep", 2500, 7, 9)],
        "thorough": [ex("repT", "repT", 1, 4, alphabet=["a", ","]), ex("repT5", "repT", 1, 5, alphabet=["a", ","], modes=["E"], timeout=3000),
                     ex("repTb", "repT", 1, 3, alphabet=["a", "b", ","], modes=["E"], timeout=3000), ex("rep3", "rep", 3, 3, alphabet=["a", ","], timeout=3000),
                     rec("repR", "rep", 30000, 9, 12)],
    },
    "C03": {
        "quick": [ex("peg2", "peg", 2, 3), ex("repT", "repT", 1, 3, alphabet=["a", ","], modes=["E"]), ex("err2", "err", 2, 3, etys=ALL_ETYS),
                  ex("rcv2", "rcv", 2, 3, etys=["rich", "empty"]), rec("pegR", "peg", 1000, 8, 8, etys=ALL_ETYS), rec("lblR", "lbl", 1000, 8, 8, etys=ALL_ETYS),
                  rec("rcvR", "rcv", 800, 8, 8, etys=ALL_ETYS)],
        "thorough": [ex("peg3", "peg", 3, 3), ex("repT", "repT", 1, 4, alphabet=["a", ","], timeout=3000), ex("err3", "err", 3, 3, etys=ALL_ETYS),
                     ex("rcv3", "rcv", 3, 3), rec("pegR", "peg", 20000, 10, 10, etys=ALL_ETYS), rec("lblR", "lbl", 20000, 10, 10, etys=ALL_ETYS)],
    },
    "C04": {
        "quick": [ex("peg2", "peg", 2, 3), ex("emit3", "emit", 3, 3), ex("ctx2", "ctx", 2, 3), ex("stat", "stat", 1, 3, kinds=["static"]),
                  ex("extT", "extT", 1, 4, alphabet=["a", "b", "c"], etys=["rich", "simple"]), ex("progT", "progT", 1, 3, alphabet=["a", "b", "!"]), rec("emitR", "emit", 1500, 8, 8), rec("pegR", "peg", 1000, 8, 8), rec("ctxR", "ctx", 1000, 8, 8),
                  ex("iiT", "iiT", 1, 3, alphabet=["a", ","]), {"kind": "regex", "name": "regex", "len": 2}],
        "thorough": [ex("iiT", "iiT", 1, 4, alphabet=["a", ","]), {"kind": "regex", "name": "regex", "len": 4}, ex("peg3", "peg", 3, 3), ex("emit4", "emit", 4, 3), ex("ctx3", "ctx", 3, 3), rec("emitR", "emit", 20000, 10, 10), rec("pegR", "peg", 20000, 10, 10), rec("ctxR", "ctx", 10000, 10, 10)],
    },
    "C05": {
        "quick": [ex("emit4", "emit", 4, 3), ex("rcvE", "rcvE", 1, 4, alphabet=["a", "b", "!"], modes=["E"]), ex("rcv3", "rcv", 3, 3, modes=["E"]),
                  ex("progT", "progT", 1, 3, alphabet=["a", "b", "!"], modes=["E"]), ex("nst2", "nst", 2, 4, alphabet=["a", "(", ")"], kinds=["tree", "treem"], modes=["E"]), ex("emit3e", "emit", 3, 3, etys=["empty", "simple"], modes=["E"]),
                  rec("emitR", "emit", 3000, 8, 8), rec("rcvR", "rcv", 1500, 8, 8, etys=ALL_ETYS)],
        "thorough": [ex("emit4", "emit", 4, 4), ex("rcvE", "rcvE", 1, 6, alphabet=["a", "b", "!"]), ex("rcv3", "rcv", 3, 4), ex("rcvT", "rcvT", 1, 5, alphabet=["a", "b", "!"]),
                     rec("emitR", "emit", 40000, 10, 10), rec("rcvR", "rcv", 30000, 10, 10)],
    },
    "C06": {
        "quick": [ex("err3", "err", 3, 3, etys=["rich"], modes=["E"]), ex("err2", "err", 2, 3, etys=ALL_ETYS),
                  ex("lblT", "lblT", 1, 4, alphabet=["a", "b", "c"], etys=["rich", "simple"], modes=["E"]), ex("lbl2", "lbl", 2, 3, etys=ALL_ETYS, modes=["E"]),
                  ex("nstT", "nstT", 1, 4, alphabet=["a", "b", "(", ")"], kinds=["tree", "treem"], etys=["rich", "cheap"], modes=["E"]),
                  ex("spnrE", "spnr", 3, 3, kinds=["slice", "mapped"], modes=["E"]),
                  rec("errR", "err", 1500, 8, 8, etys=ALL_ETYS), rec("lblR", "lbl", 1000, 8, 8, etys=ALL_ETYS),
                  {"kind": "altrule", "name": "altrule"}],
        "thorough": [{"kind": "altrule", "name": "altrule"}, ex("err3", "err", 3, 4, etys=["rich", "simple"]), ex("err2", "err", 2, 4, etys=ALL_ETYS),
                     ex("lblT", "lblT", 1, 5, alphabet=["a", "b", "c"], etys=ALL_ETYS), ex("lbl3", "lbl", 3, 3, etys=["rich", "cheap"]),
                     ex("nstT", "nstT", 1, 5, alphabet=["a", "b", "(", ")"], kinds=["tree", "treem"], etys=ALL_ETYS, modes=["E"]),
                     rec("errR", "err", 30000, 10, 10, etys=ALL_ETYS), rec("lblR", "lbl", 20000, 10, 10, etys=ALL_ETYS)],
    },
    "C07": {
        "quick": [ex("spn3", "spn", 3, 3, alphabet=["a", "b", "E"], kinds=["str"], modes=["E"], invariants=INV_SPANS),
                  ex("spng3", "spng", 3, 3, kinds=["mstream"], modes=["E"], invariants=INV_SPANS),
                  ex("spng4", "spng", 4, 3, kinds=["mapped"], modes=["E"], invariants=INV_SPANS),
                  ex("spn2", "spn", 2, 3, kinds=["slice", "array", "bytes"], modes=["E"], invariants=INV_SPANS),
                  ex("slcT", "slcT", 1, 4, kinds=["slice", "array", "bytes", "str"], modes=["E"], invariants=INV_SPANS),
                  ex("gapT", "gapT", 1, 3, alphabet=["a", "b", "E"], kinds=["str", "mapped"], modes=["E"], invariants=INV_SPANS),
                  ex("spni3", "spni", 3, 3, kinds=["iter"], modes=["E"], invariants=INV_SPANS), ex("gapTi", "gapTi", 1, 3, kinds=["iter"], modes=["E"], invariants=INV_SPANS),
                  ex("spnr3", "spnr", 3, 3, kinds=["mapped"], modes=["E"], invariants=INV_SPANS),
                  ex("progT", "progT", 1, 3, alphabet=["a", "b", "E"], kinds=["str", "mapped"], modes=["E"], invariants=INV_SPANS),
                  ex("prattS", "prattM", 1, 4, alphabet=["a", "*", "-", "!"], kinds=["str", "mapped"], modes=["E"], invariants=INV_SPANS),
                  rec("spnR", "spn", 1500, 8, 8, kinds=["str", "slice"]), rec("spngR", "spng", 1500, 8, 8, kinds=["mapped", "mstream", "stream"]),
                  rec("spnrR", "spnr", 1000, 8, 8, kinds=["mapped", "slice", "wctx", "mapspan"])],
        "thorough": [ex("spn3", "spn", 3, 4, alphabet=["a", "b", "E"], kinds=["str"], invariants=INV_SPANS),
                     ex("spng3", "spng", 3, 4, kinds=["mapped", "mstream"], modes=["E"], invariants=INV_SPANS),
                     ex("spn3s", "spn", 3, 3, kinds=["slice", "bytes"], modes=["E"], invariants=INV_SPANS),
                     ex("spnr3", "spnr", 3, 4, kinds=["mapped", "slice"], invariants=INV_SPANS),
                     rec("spnR", "spn", 20000, 10, 10, kinds=["str", "slice"]), rec("spngR", "spng", 20000, 10, 10, kinds=["mapped", "mstream", "stream"]),
                     rec("spnrR", "spnr", 20000, 10, 10, kinds=["mapped", "slice", "wctx", "mapspan"])],
    },
    "C09": {
        "quick": [ex("pratt", "pratt", 1, 4, alphabet=["a", "+", "*", "-", "!", "^"], modes=["E"], invariants=DEFAULT_INVARIANTS + ["PrattFlatten"]),
                  ex("prattP5", "prattP", 1, 5, alphabet=["a", "+", "*", "-"], modes=["E"], invariants=DEFAULT_INVARIANTS + ["PrattFlatten"]),
                  ex("prattM", "prattM", 1, 4, alphabet=["a", "*", "-", "!"], modes=["E"], invariants=DEFAULT_INVARIANTS + ["PrattFlatten"]),
                  ex("prattRec", "prattRec", 1, 4, alphabet=["a", "+", "*", "(", ")"], modes=["E"]),
                  ex("prattH", "prattH", 1, 4, alphabet=["a", "+", "*", "-", "!"], invariants=DEFAULT_INVARIANTS + ["PrattFlatten"]),
                  rec("prattR", "pratt", 2500, 6, 9)],
        "thorough": [ex("pratt", "pratt", 1, 5, alphabet=["a", "+", "*", "-", "!", "^"], modes=["E"], timeout=4000, invariants=DEFAULT_INVARIANTS + ["PrattFlatten"]),
                     ex("prattC", "pratt", 1, 4, alphabet=["a", "+", "*", "-", "!", "^"], modes=["C"], timeout=3000, invariants=DEFAULT_INVARIANTS + ["PrattFlatten"]),
                     ex("prattP6", "prattP", 1, 6, alphabet=["a", "+", "*", "-"], invariants=DEFAULT_INVARIANTS + ["PrattFlatten"]),
                     rec("prattR", "pratt", 40000, 6, 12)],
    },
    "C10": {
        "quick": [ex("peg2k", "peg", 2, 2, kinds=ALL_KINDS, modes=["E"]), ex("rep2k", "rep", 2, 3, alphabet=["a", ","], kinds=["stream", "mapped", "io"], modes=["E"]),
                  ex("rcv2k", "rcv", 2, 3, kinds=["bstream", "mstream", "wctx"], modes=["E"]),
                  ex("seek4", "seek", 4, 4, kinds=["io", "bstream"], modes=["E"]),
                  ex("spn2g", "spn", 2, 3, alphabet=["a", "G", "U", "D"], kinds=["graph"], modes=["E"]),
                  ex("spng3k", "spng", 3, 3, kinds=["mstream", "wctx", "mapspan"], modes=["E"]),
                  ex("gapTk", "gapT", 1, 3, kinds=["mapped", "mstream", "wctx", "io"], modes=["E"]),
                  ex("spni3", "spni", 3, 3, kinds=["iter"], modes=["E"]), ex("gapTi", "gapTi", 1, 3, kinds=["iter"], modes=["E"]),
                  ex("progTk", "progT", 1, 3, kinds=["stream", "io", "mstream", "wctx", "array"], modes=["E"]),
                  ex("spnr2k", "spnr", 2, 3, kinds=["mapped", "slice", "array"], modes=["E"]),
                  ex("txtrk", "txtr", 1, 2, alphabet=["0", "9", "f", "g", "A", "z"], kinds=["str", "bytes"], invariants=INV_TEXT, modes=["E"]),
                  {"kind": "inputs", "name": "kinds", "ops": 4},
                  rec("longS", "seek", 24, 7, 1100, minlen=500, kinds=["stream", "bstream", "mstream"]),
                  rec("pegRk", "peg", 2500, 8, 8, kinds=ALL_KINDS), rec("spngRk", "spng", 1500, 8, 8, kinds=["mapped", "mstream", "stream", "wctx", "mapspan", "io"])],
        "thorough": [ex("peg2k", "peg", 2, 3, kinds=ALL_KINDS), ex("rep2k", "rep", 2, 4, alphabet=["a", ","], kinds=ALL_KINDS, modes=["E"]),
                     ex("rcv3k", "rcv", 3, 3, kinds=["bstream", "mstream", "wctx", "io"], modes=["E"]),
                     ex("seek5", "seek", 5, 4, kinds=["io", "bstream", "mstream", "stream", "mapped"], modes=["E"]),
                     ex("spn3g", "spn", 3, 3, alphabet=["a", "G", "U", "D", "E"], kinds=["graph", "str"]),
                     ex("spng4k", "spng", 4, 3, kinds=["mapped", "mstream", "wctx", "mapspan"], modes=["E"]),
                     ex("gapTk", "gapT", 1, 4, kinds=ALL_KINDS),
                     ex("spni4", "spni", 4, 3, kinds=["iter", "mapped"], modes=["E"]), ex("gapTi", "gapTi", 1, 4, kinds=["iter"]),
                     {"kind": "inputs", "name": "kinds", "ops": 5, "small_ops": 7},
                     rec("longS", "seek", 300, 8, 1600, minlen=500, kinds=["stream", "bstream", "mstream", "io"], timeout=3000),
                     rec("pegRk", "peg", 30000, 10, 10, kinds=ALL_KINDS), rec("spngRk", "spng", 20000, 10, 10, kinds=["mapped", "mstream", "stream", "wctx", "mapspan", "io"])],
    },
    "C08": {
        "quick": [ex("rcv3", "rcv", 3, 3), ex("rcv2e", "rcv", 2, 3, etys=["empty", "cheap"], modes=["E"]), ex("rcvT", "rcvT", 1, 4, alphabet=["a", "b", "!"]),
                  ex("exTj", "exT", 1, 3, alphabet=EXJ, invariants=INV_TEXT), ex("exTp", "exT", 1, 3, alphabet=EXP, invariants=INV_TEXT, modes=["E"]),
                  ex("rcvN", "rcvN", 1, 5, alphabet=["a", "(", ")", "["], modes=["E"], invariants=DEFAULT_INVARIANTS + ["TextRefines"]), rec("rcvR", "rcv", 1500, 8, 8)],
        "thorough": [ex("rcv3", "rcv", 3, 4), ex("rcvT", "rcvT", 1, 6, alphabet=["a", "b", "!"]),
                     ex("exTj", "exT", 1, 5, alphabet=EXJ, invariants=INV_TEXT, modes=["E"]), ex("exTp", "exT", 1, 5, alphabet=EXP, invariants=INV_TEXT, modes=["E"]),
                     ex("rcvN", "rcvN", 1, 6, alphabet=["a", "(", ")", "[", "]"], invariants=DEFAULT_INVARIANTS + ["TextRefines"]), rec("rcvR", "rcv", 30000, 10, 10)],
    },
    "C11": {
        "quick": [ex("memo3", "memo", 3, 3), ex("memoT", "memoT", 1, 4), ex("stat", "stat", 1, 3, kinds=["static", "staticc"]), ex("lrec", "lrec", 1, 5, alphabet=["a", "+"], invariants=NO_DEN), ex("recm", "rec", 1, 4, alphabet=["a", "b", "(", ")"]),
                  ex("exL", "exL", 1, 5, alphabet=["a", "+"], invariants=NO_DEN), ex("exTp", "exT", 1, 3, alphabet=EXP, invariants=INV_TEXT, modes=["E"]),
                  rec("memoR", "memo", 1500, 8, 8)],
        "thorough": [ex("memo3", "memo", 3, 4), ex("memoT", "memoT", 1, 6), ex("lrec", "lrec", 1, 7, alphabet=["a", "+"], invariants=NO_DEN),
                     ex("exL", "exL", 1, 7, alphabet=["a", "+"], invariants=NO_DEN), ex("exTp", "exT", 1, 5, alphabet=EXP, invariants=INV_TEXT), rec("memoR", "memo", 30000, 10, 10)],
    },
    "C12": {
        "quick": [ex("rec", "rec", 1, 5, alphabet=["a", "b", "(", ")"]), rec("recR", "rec", 1500, 8, 10),
                  {"kind": "reccell", "name": "cells", "ops": 5, "handles": 4},
                  deep("deep", ["paren", "parend", "mutual", "rightrec", "prefix", "infixr", "define2"], [3000, 100000])],
        "thorough": [ex("rec", "rec", 1, 6, alphabet=["a", "b", "(", ")"]), rec("recR", "rec", 30000, 10, 14),
                     {"kind": "reccell", "name": "cells", "ops": 6, "handles": 4, "timeout": 3000},
                     deep("deep", ["paren", "parend", "mutual", "rightrec", "prefix", "infixr", "define2"], [1000, 3000, 10000, 100000, 1000000])],
    },
    "C13": {
        "quick": [ex("hpeg2", "peg", 2, 2, hist=1), ex("hmemo2", "memo", 2, 2, hist=2, modes=["E"], kinds=["slice"]),
                  ex("stat", "stat", 1, 3, kinds=["static", "staticc"], modes=["E"]),
                  rec("pegH", "peg", 1000, 8, 6, kinds=["str", "slice", "stream"]), rec("memoH", "memo", 500, 8, 6), rec("rcvH", "rcv", 500, 8, 6),
                  rec("repH", "rep", 800, 8, 6), rec("recH", "rec", 500, 8, 8), rec("ctxH", "ctx", 400, 8, 6), rec("lblH", "lbl", 400, 8, 6), rec("prattHi", "pratt", 400, 6, 7),
                  {"kind": "threads", "name": "threads", "n": 8, "rounds": 3}],
        "thorough": [ex("hpeg2", "peg", 2, 2, hist=2, modes=["E"], timeout=3000), ex("hpeg3", "peg", 3, 1, hist=2, modes=["E"], timeout=3000), ex("hmemo3", "memo", 3, 2, hist=2, modes=["E"], kinds=["slice"]),
                     ex("hrcv2", "rcv", 2, 2, hist=2, modes=["E"]),
                     rec("pegH", "peg", 20000, 10, 8, kinds=["str", "slice", "stream"]), rec("memoH", "memo", 10000, 10, 8), rec("rcvH", "rcv", 10000, 10, 8),
                     rec("repH", "rep", 10000, 9, 8), ex("stat", "stat", 1, 4, kinds=["static", "staticc"]), {"kind": "threads", "name": "threads", "n": 16, "rounds": 40}],
    },
    "C14": {
        "quick": [ex("txt", "txt", 1, 3, alphabet=["0", "1", "a", "_", "S", "R", "N", "E"], invariants=DEFAULT_INVARIANTS + ["TextRefines"], modes=["E"]),
                  ex("txtb", "txtb", 1, 3, alphabet=["0", "a", "_", "S", "V"], kinds=["bytes"], invariants=DEFAULT_INVARIANTS + ["TextRefines"], modes=["E"]),
                  ex("txtr", "txtr", 1, 3, alphabet=["0", "1", "7", "9", "f", "z"], kinds=["str", "bytes"], invariants=DEFAULT_INVARIANTS + ["TextRefines"], modes=["E"]),
                  ex("txtc", "txtc", 1, 3, alphabet=["0", "1", "a", "S", "N", "+"], invariants=DEFAULT_INVARIANTS + ["TextRefines"], modes=["E"]),
                  ex("txtx", "txt", 1, 2, alphabet=["9", "a", "g", "A", "@", "`", "H", "I", "K", "M"], invariants=INV_TEXT, modes=["E"]),
                  ex("txtbx", "txtb", 1, 2, alphabet=["0", "9", "a", "g", "A", "@", "`", "/", ":"], kinds=["bytes"], invariants=INV_TEXT, modes=["E"]),
                  ex("txtrx", "txtr", 1, 2, alphabet=["0", "9", "f", "g", "z", "A", "@", "`", "/", ":", "{", "["], kinds=["str", "bytes"], invariants=INV_TEXT, modes=["E"]),
                  ex("txtcx", "txtc", 1, 3, alphabet=["1", "a", "S", "H", "I", "K"], invariants=INV_TEXT, modes=["E"]),
                  rec("txtR", "txt", 2500, 6, 8, invariants=DEFAULT_INVARIANTS + ["TextRefines"]), rec("txtbR", "txtb", 1500, 6, 8, kinds=["bytes"], invariants=DEFAULT_INVARIANTS + ["TextRefines"]),
                  {"kind": "regex", "name": "regex", "len": 3}],
        "thorough": [ex("txt", "txt", 1, 4, alphabet=["0", "1", "a", "_", "S", "R", "N", "E", "+"], invariants=DEFAULT_INVARIANTS + ["TextRefines"]),
                     ex("txtb", "txtb", 1, 4, alphabet=["0", "1", "a", "_", "S", "V", "N", "+"], kinds=["bytes"], invariants=DEFAULT_INVARIANTS + ["TextRefines"], modes=["E"]),
                     ex("txtr", "txtr", 1, 4, alphabet=["0", "1", "7", "9", "a", "f", "z"], kinds=["str", "bytes"], invariants=DEFAULT_INVARIANTS + ["TextRefines"], modes=["E"]),
                     ex("txtc", "txtc", 1, 4, alphabet=["0", "1", "a", "_", "S", "N", "R", "+"], invariants=DEFAULT_INVARIANTS + ["TextRefines"]),
                     ex("txtx", "txt", 1, 3, alphabet=["9", "a", "g", "A", "@", "`", "H", "I", "K", "M"], invariants=INV_TEXT, modes=["E"]),
                     ex("txtbx", "txtb", 1, 3, alphabet=["0", "9", "a", "g", "A", "@", "`", "/", ":"], kinds=["bytes"], invariants=INV_TEXT, modes=["E"]),
                     ex("txtrx", "txtr", 1, 3, alphabet=["0", "9", "f", "g", "z", "A", "@", "`", "/", ":", "{", "["], kinds=["str", "bytes"], invariants=INV_TEXT, modes=["E"]),
                     ex("txtcx", "txtc", 1, 4, alphabet=["1", "a", "S", "H", "I", "K"], invariants=INV_TEXT, modes=["E"]),
                     ex("txtw", "txt", 1, 3, alphabet=["T", "V", "F", "X", "L", "P", "N", "R", "a"], invariants=DEFAULT_INVARIANTS + ["TextRefines"], modes=["E"]),
                     rec("txtR", "txt", 40000, 6, 12, invariants=DEFAULT_INVARIANTS + ["TextRefines"]), rec("txtbR", "txtb", 20000, 6, 12, kinds=["bytes"], invariants=DEFAULT_INVARIANTS + ["TextRefines"]),
                     {"kind": "regex", "name": "regex", "len": 5}],
    },
    "C15": {
        "quick": [ex("ctx3", "ctx", 3, 3), ex("cfgT", "cfgT", 1, 3), rec("ctxR", "ctx", 1500, 8, 8)],
        "thorough": [ex("ctx3", "ctx", 3, 4), rec("ctxR", "ctx", 30000, 10, 10)],
    },
    "C16": {
        "quick": [ex("nst3", "nst", 3, 4, alphabet=["a", "b", "(", ")"], kinds=["tree", "treem"], modes=["E"]), ex("nst2", "nst", 2, 4, alphabet=["a", "(", ")"], kinds=["tree"], modes=["C"]),
                  ex("nstT", "nstT", 1, 4, alphabet=["a", "b", "(", ")"], kinds=["tree", "treem"], etys=["rich", "simple"], modes=["E"]),
                  rec("nstR", "nst", 2000, 8, 10, kinds=["tree", "treem"])],
        "thorough": [ex("nst3", "nst", 3, 6, alphabet=["a", "b", "(", ")"], kinds=["tree", "treem"]),
                     ex("nst4", "nst", 4, 4, alphabet=["a", "(", ")"], kinds=["treem"], modes=["E"]),
                     rec("nstR", "nst", 30000, 10, 14, kinds=["tree", "treem"])],
    },
    "C17": {
        "quick": [ex("lbl3", "lbl", 3, 3), ex("lblT", "lblT", 1, 4, alphabet=["a", "b", "c"]), rec("lblR", "lbl", 1500, 8, 8)],
        "thorough": [ex("lbl3", "lbl", 3, 4), ex("lblT", "lblT", 1, 5, alphabet=["a", "b", "c"]), rec("lblR", "lbl", 30000, 10, 10)],
    },
    "C18": {
        "quick": [ex("peg2", "peg", 2, 3), ex("pegI2", "pegI", 2, 3), ex("emit3", "emit", 3, 3), ex("txtc", "txtc", 1, 3, alphabet=["1", "a", "S", "+"], modes=["E"]),
                  ex("progT", "progT", 1, 3, alphabet=["a", "b", "!"]),
                  rec("pegR", "peg", 1500, 8, 8, kinds=["str", "slice", "stream"]), rec("emitR", "emit", 1500, 8, 8), rec("txtR", "txt", 800, 6, 8), rec("rcvR", "rcv", 800, 8, 8)],
        "thorough": [ex("peg3", "peg", 3, 3), ex("emit4", "emit", 4, 3), ex("txtc", "txtc", 1, 4, alphabet=["1", "a", "S", "N", "+"]), ex("rcv3", "rcv", 3, 3, modes=["E"]),
                     rec("pegR", "peg", 20000, 10, 10, kinds=["str", "slice", "stream"]), rec("emitR", "emit", 20000, 10, 10), rec("txtR", "txt", 10000, 6, 10),
                     rec("rcvR", "rcv", 10000, 10, 10), rec("prattR", "pratt", 10000, 6, 10)],
    },
    "C19": {
        "quick": [ex("drp3", "drp", 3, 3, invariants=DEFAULT_INVARIANTS + ["NoLeak"]), ex("drpT", "drpT", 1, 3, invariants=DEFAULT_INVARIANTS + ["NoLeak"]),
                  ex("stat", "stat", 1, 3, kinds=["static", "staticc"], invariants=DEFAULT_INVARIANTS + ["NoLeak"]),
                  ex("drpK", "drp", 2, 3, kinds=["tslice", "tstream"], invariants=DEFAULT_INVARIANTS + ["NoLeak"]),
                  ex("pegK", "peg", 2, 2, kinds=["tslice", "tstream"], invariants=DEFAULT_INVARIANTS + ["NoLeak"]),
                  ex("rcvK", "rcv", 2, 3, kinds=["tslice", "tstream"], modes=["E"], invariants=DEFAULT_INVARIANTS + ["NoLeak"]),
                  rec("drpR", "drp", 2500, 8, 8, invariants=DEFAULT_INVARIANTS + ["NoLeak"]), rec("pegR", "peg", 1000, 8, 8), rec("rcvR", "rcv", 1000, 8, 8)],
        "thorough": [ex("drp4", "drp", 4, 3, invariants=DEFAULT_INVARIANTS + ["NoLeak"]), ex("drpT", "drpT", 1, 4, invariants=DEFAULT_INVARIANTS + ["NoLeak"]),
                     rec("drpR", "drp", 30000, 10, 10, invariants=DEFAULT_INVARIANTS + ["NoLeak"]), rec("pegR", "peg", 20000, 10, 10), rec("rcvR", "rcv", 20000, 10, 10),
                     rec("repR", "rep", 20000, 9, 12)],
    },
    "C20": {
        "quick": [ex("peg2", "peg", 2, 3, etys=["rich", "empty"]), ex("err2", "err", 2, 3, etys=ALL_ETYS),
                  ex("lbl2", "lbl", 2, 3, etys=["empty", "cheap"]), ex("rcv2", "rcv", 2, 3, etys=["empty", "simple"]), ex("memo2", "memo", 2, 3, etys=["empty"]),
                  ex("cfgT", "cfgT", 1, 3, modes=["E"]), ex("lrec", "lrec", 1, 4, alphabet=["a", "+"], invariants=NO_DEN),
                  ex("prattH", "prattH", 1, 3, alphabet=["a", "+", "*", "-", "!"]),
                  rec("pegR", "peg", 1500, 8, 8, etys=ALL_ETYS), rec("lblR", "lbl", 1000, 8, 8, etys=ALL_ETYS), rec("rcvR", "rcv", 1000, 8, 8, etys=ALL_ETYS),
                  rec("memoR", "memo", 1000, 8, 8, etys=ALL_ETYS),
                  deep("deep", ["prefix", "infixr", "infixl", "postfix", "repeat", "paren"], [3000, 60000])],
        "thorough": [deep("deep", ["paren", "parend", "mutual", "rightrec", "prefix", "infixr", "infixl", "postfix", "repeat"], [1000, 10000, 100000, 1000000]),
                     ex("peg3", "peg", 3, 3, etys=["rich", "empty"]), ex("err3", "err", 3, 3, etys=ALL_ETYS),
                     ex("lbl3", "lbl", 3, 3, etys=["empty", "cheap"]), ex("rcv3", "rcv", 3, 3, etys=["empty", "simple"]), ex("memo3", "memo", 3, 3, etys=["empty"]),
                     rec("pegR", "peg", 30000, 10, 12, etys=ALL_ETYS), rec("lblR", "lbl", 20000, 10, 10, etys=ALL_ETYS), rec("rcvR", "rcv", 20000, 10, 10, etys=ALL_ETYS),
                     rec("memoR", "memo", 20000, 10, 10, etys=ALL_ETYS), rec("repR", "rep", 20000, 9, 12, etys=ALL_ETYS)],
    },
}


def plan(prop, tier):
    p = PLANS.get(prop)
    if p is None:
        return None
    return p.get(tier) or p.get("quick")
