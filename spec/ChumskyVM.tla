----------------------------- MODULE ChumskyVM -----------------------------
(***************************************************************************)
(* The chumsky abstract machine.                                           *)
(*                                                                         *)
(* One parse (Parser::parse / Parser::check) is a run of a machine whose   *)
(* state is what InputRef / InputOwn hold (src/input.rs): the cursor, the  *)
(* pending primary error `alt`, the list of secondary errors, the          *)
(* inspector state, the memo table -- plus an explicit control stack that  *)
(* stands for the Rust call stack of `go::<M>` invocations.  Every         *)
(* combinator's `go` body is transcribed as one action per critical        *)
(* section: the code between two sub-parser calls.  A frame's `pc` says    *)
(* which sub-parser call it is waiting for.                                *)
(*                                                                         *)
(* Cases (grammar, input, input kind, error type, mode) are supplied by    *)
(* the model (exhaustive enumeration) or read from a file recorded by the  *)
(* Rust harness (trace validation); `cid` picks one in Init.               *)
(***************************************************************************)
EXTENDS Errs, SequencesExt

CONSTANTS Cases,      \* sequence of case records [g, inp, offs, kind, ety, mode]
          KFSites     \* deviation sites whose defect branch is enabled (known findings)

VARIABLES cid,        \* index into Cases, fixed in Init
          stack,      \* control stack of frames
          ret,        \* result register: what the frame that just returned produced
          cur,        \* cursor: number of tokens consumed
          alt,        \* pending primary error (Errors::alt)
          sec,        \* secondary errors: sequence of [pos, err] (Errors::secondary)
          insp,       \* inspector state: number of tokens fed by on_token, restored by on_rewind
          memo,       \* memo table: function from <<pos, path>> to [inprog, alt]
          kf,         \* deviation choices made so far: function site -> "on"/"off"
          st,         \* [done, panicked, steps, leaked, run, past]: leaked = tracked values lost without being
                      \* dropped (C19); run / past = index of the current parse of a history and the results of
                      \* the finished ones (C13)
          obs,        \* history: probe events <<id, cur, insp, ctx>>
          result      \* the ParseResult, set by Finish

vars == <<cid, stack, ret, cur, alt, sec, insp, memo, kf, st, obs, result>>

Case == Cases[cid]
G == Case.g
(* Histories (C13): a case may carry further inputs (`more`, with their offsets `moffs`) that are  *)
(* parsed one after the other through the SAME parser value; st.run counts the finished parses.  *)
Toks == IF st.run = 0 THEN Case.inp ELSE Case.more[st.run]
COffs == IF st.run = 0 THEN Case.offs ELSE Case.moffs[st.run]
NTok == Len(Toks)
Ety == Case.ety
TopMode == Case.mode

(* Span between two cursors, in the offsets of the input kind (Input::span).                  *)
(* Contiguous kinds (&str, slices, Stream, IoInput, with_context, map_span): offs[i] is the     *)
(* offset of cursor i.  Kinds whose tokens carry their own spans (Input::map over a slice or a  *)
(* Stream, IterInput) are modelled with gapped spans: token k covers 3k+1 .. 3k+2, eoi = 3n.    *)
(* MappedInput::span / IterInput::span take the START of the token after the first cursor and   *)
(* the END of the token before the second one -- for an empty match that is an inverted span    *)
(* (or one reaching to eoi at cursor 0): deviation site "mapped_span" (C07), chosen in Init.    *)
GappedKinds == {"mapped", "mstream", "iter", "treem"}
Gapped == Case.kind \in GappedKinds
MappedDefect == "mapped_span" \in DOMAIN kf /\ kf["mapped_span"] = "on"
GStart(i) == 3 * i + 1

(* Token trees (C16).  For the kinds "tree" (nested slices &[Tok]) and "treem" (the same through  *)
(* Input::map, tokens carrying global gapped spans) the flat token sequence contains balanced "("  *)
(* ")" pairs: at any nesting level a "(" together with everything up to its matching ")" is ONE    *)
(* token (a group).  A cursor is always an index into the flat sequence; an input context is the   *)
(* flat range <<lo, hi>> of the tokens of one group (the whole input: <<0, NTok>>).  Every frame    *)
(* carries the range of the input context it runs in (`rng`).                                       *)
TreeKinds == {"tree", "treem"}
IsTree == Case.kind \in TreeKinds
RECURSIVE ScanClose(_, _)
ScanClose(j, depth) ==        \* 1-based index of the ")" that closes the group open at depth `depth` before j
  IF j > NTok THEN NTok
  ELSE IF Toks[j] = "(" THEN ScanClose(j + 1, depth + 1)
  ELSE IF Toks[j] = ")" THEN (IF depth = 1 THEN j ELSE ScanClose(j + 1, depth - 1))
  ELSE ScanClose(j + 1, depth)
(* cursor after the token that starts at cursor i *)
Nxt(i) == IF IsTree /\ i < NTok /\ Toks[i + 1] = "(" THEN ScanClose(i + 2, 1) ELSE i + 1
RngLo == IF stack = <<>> THEN 0 ELSE stack[Len(stack)].rng[1]
RngHi == IF stack = <<>> THEN NTok ELSE stack[Len(stack)].rng[2]
TopLevel == RngLo = 0 /\ RngHi = NTok
RECURSIVE IdxIn(_, _)
IdxIn(lo, c) == IF c <= lo THEN 0 ELSE 1 + IdxIn(Nxt(lo), c)      \* number of tokens of this level in [lo, c)
SpanOf(i, j) ==
  IF Case.kind = "tree" THEN <<IdxIn(RngLo, i), IdxIn(RngLo, j)>>     \* plain slices: indices into the inner slice
  ELSE IF ~Gapped THEN <<COffs[i + 1], COffs[j + 1]>>
  ELSE IF i = RngHi THEN (IF TopLevel THEN <<3 * NTok, 3 * NTok>> ELSE <<GStart(i), GStart(i)>>)
  ELSE IF j > i THEN <<GStart(i), 3 * j - 1>>
  ELSE IF MappedDefect THEN <<GStart(i), IF j > 0 THEN 3 * j - 1 ELSE 3 * NTok>>
  ELSE <<GStart(i), GStart(i)>>       \* an empty match: an empty span just before the following token
TokAt(i) == IF i < RngHi THEN Toks[i + 1] ELSE ""     \* token after cursor i, "" at the end of the (inner) input

---------------------------------------------------------------------------
(* frames, checkpoints, result register *)

Cp(c, ns, ic) == [cur |-> c, nsec |-> ns, insp |-> ic]
Frame(g, mode, ctx, env, path, role, n, c, ns, ic, rng) ==
  [g |-> g, mode |-> mode, ctx |-> ctx, env |-> env, path |-> path, role |-> role,
   pc |-> 0, n |-> n, k |-> 0, acc |-> <<>>, cp |-> Cp(c, ns, ic), cp2 |-> Cp(c, ns, ic), salt |-> NoAlt,
   rng |-> rng, sv |-> <<>>]
NoFrame == Frame(<<"empty">>, "E", VU, <<>>, <<>>, "go", 0, 0, 0, 0, <<0, 0>>)

(* the result register; `fr` remembers the frame that returned (for the refinement invariants) *)
NoRet == [set |-> FALSE, ok |-> FALSE, val |-> VU, some |-> FALSE, n |-> 0, fr |-> NoFrame]
OkRet(v) == [set |-> TRUE, ok |-> TRUE, val |-> v, some |-> TRUE, n |-> 0, fr |-> NoFrame]
ErrRet == [set |-> TRUE, ok |-> FALSE, val |-> VU, some |-> FALSE, n |-> 0, fr |-> NoFrame]
SomeRet(v, n) == [set |-> TRUE, ok |-> TRUE, val |-> v, some |-> TRUE, n |-> n, fr |-> NoFrame]
NoneRet(n) == [set |-> TRUE, ok |-> TRUE, val |-> VU, some |-> FALSE, n |-> n, fr |-> NoFrame]

Top == stack[Len(stack)]
MV(mode, v) == IF mode = "E" THEN v ELSE VU            \* M::bind / M::map: no value in Check mode
Truncate(s, n) == IF Len(s) <= n THEN s ELSE SubSeq(s, 1, n)

Tick == st' = [st EXCEPT !.steps = @ + 1]
TickLeak(n) == st' = [st EXCEPT !.steps = @ + 1, !.leaked = @ + n]

(* Call: replace the top frame by f2 and push a frame for child node cg.   *)
(* The child's entry checkpoint is the state this action leaves behind.    *)
CallX(f2, cg, cmode, cctx, cenv, cpath, crole, cn, ncur, nsec, ninsp, nalt) ==
  /\ cur' = ncur /\ sec' = nsec /\ insp' = ninsp /\ alt' = nalt
  /\ stack' = Append([stack EXCEPT ![Len(stack)] = f2],
                     Frame(cg, cmode, cctx, cenv, cpath, crole, cn, ncur, Len(nsec), ninsp, f2.rng))
  /\ ret' = NoRet
  /\ Tick
Call(f2, k, cg, cmode, ncur, nsec, ninsp, nalt) ==
  /\ CallX(f2, cg, cmode, f2.ctx, f2.env, Append(f2.path, k), "go", 0, ncur, nsec, ninsp, nalt)
  /\ UNCHANGED <<cid, memo, kf, obs, result>>
CallIter(f2, k, cg, cmode, cn, ncur, nsec, ninsp, nalt) ==
  /\ CallX(f2, cg, cmode, f2.ctx, f2.env, Append(f2.path, k), "next", cn, ncur, nsec, ninsp, nalt)
  /\ UNCHANGED <<cid, memo, kf, obs, result>>
(* Return: pop the top frame and leave r in the result register *)
RetX(r, ncur, nsec, ninsp, nalt) ==
  /\ cur' = ncur /\ sec' = nsec /\ insp' = ninsp /\ alt' = nalt
  /\ stack' = Front(stack)
  /\ ret' = [r EXCEPT !.fr = Top]
  /\ Tick
Return(r, ncur, nsec, ninsp, nalt) ==
  /\ RetX(r, ncur, nsec, ninsp, nalt)
  /\ UNCHANGED <<cid, memo, kf, obs, result>>
Keep(r) == Return(r, cur, sec, insp, alt)               \* return without touching the input state
(* InputRef::rewind(cp): truncate secondary errors, restore inspector and cursor *)
RwSec(cp) == Truncate(sec, cp.nsec)

Entering(ops) == /\ ~st.done /\ stack # <<>> /\ ~ret.set /\ Top.role = "go" /\ Op(Top.g) \in ops
Resuming(ops, pc) == /\ ~st.done /\ stack # <<>> /\ ret.set /\ Op(Top.g) \in ops /\ Top.pc = pc

(* a deviation site: the defect branch may be taken only if the site is    *)
(* enabled; the first use in a behaviour fixes the choice for the rest     *)
OpenSites == {"o:tm_end"}          \* open choices: readings the statement leaves open, not defects
IsOpen(site) == site \in OpenSites
KfMay(site, b) == IF site \in DOMAIN kf THEN kf[site] = b ELSE (b = "off" \/ site \in KFSites \/ IsOpen(site))
KfSet(site, b) == IF site \in DOMAIN kf THEN kf ELSE (site :> b) @@ kf
(* ReturnK / CallK: like Return / Call but leave kf to KfSplit *)
ReturnK(r, ncur, nsec, ninsp, nalt) == RetX(r, ncur, nsec, ninsp, nalt) /\ UNCHANGED <<cid, memo, obs, result>>
CallK(f2, k, cg, cmode, ncur, nsec, ninsp, nalt) ==
  /\ CallX(f2, cg, cmode, f2.ctx, f2.env, Append(f2.path, k), "go", 0, ncur, nsec, ninsp, nalt)
  /\ UNCHANGED <<cid, memo, obs, result>>
(* KfSplit(site, Correct, Defect): what the property demands / what the code does at a known-finding site *)
KfSplit(site, Correct, Defect) ==
  \/ KfMay(site, "off") /\ Correct /\ kf' = KfSet(site, "off")
  \/ KfMay(site, "on") /\ Defect /\ kf' = KfSet(site, "on")

---------------------------------------------------------------------------
(* Primitive matchers (src/primitive.rs): one action                       *)

LeafOps == {"just", "any", "oneof", "noneof", "sel", "end", "empty", "cust", "ext", "cfgjust", "cfgjustr", "tree", "anyr", "selr", "newline"}
VIn(lo, hi) == <<"In", lo, hi>>                \* the inner input of a group token: a flat range

(* consume up to k tokens from cursor c: <<new cursor, tokens consumed>> *)
RECURSIVE AdvK(_, _, _)
AdvK(c, k, n) == IF k = 0 \/ c >= RngHi THEN <<c, n>> ELSE AdvK(Nxt(c), k - 1, n + 1)

CtxToks(c) ==
  CASE c[1] = "T" -> <<c[2]>>
    [] c[1] = "S" -> c[2]
    [] OTHER -> <<>>

(* how many leading elements of seq match the input at cursor c *)
RECURSIVE MatchLen(_, _)
MatchLen(seq, c) ==
  IF seq = <<>> \/ TokAt(c) = "" \/ TokAt(c) # Head(seq) THEN 0 ELSE 1 + MatchLen(Tail(seq), c + 1)

(* result of a primitive at cursor c: [ok, adv (tokens consumed, net of   *)
(* the primitive's own rewind), val, and for failures the add_alt args]   *)
LeafRes(g, c, ctx) ==
  LET o == Op(g)
      t == TokAt(c)
      oneTok(okc, v, exp) ==
        IF t # "" /\ okc
        THEN [ok |-> TRUE, adv |-> 1, nc |-> Nxt(c), val |-> v, exp |-> {}, found |-> "", fs |-> 0, fe |-> 0, user |-> FALSE]
        ELSE [ok |-> FALSE, adv |-> 0, nc |-> c, val |-> VU, exp |-> exp, found |-> t,
              fs |-> c, fe |-> IF t = "" THEN c ELSE Nxt(c), user |-> FALSE]
      just(seq) ==
        LET k == MatchLen(seq, c) IN
        IF k = Len(seq)
        \* the matched tokens are plain ones (a group token equals no token of a just(..) sequence)
        THEN [ok |-> TRUE, adv |-> k, nc |-> c + k, val |-> VS(seq), exp |-> {}, found |-> "", fs |-> 0, fe |-> 0, user |-> FALSE]
        ELSE [ok |-> FALSE, adv |-> k, nc |-> c + k, val |-> VU, exp |-> {"t:" \o seq[k + 1]}, found |-> TokAt(c + k),
              fs |-> c + k, fe |-> IF TokAt(c + k) = "" THEN c + k ELSE Nxt(c + k), user |-> FALSE]
  IN
  CASE o = "just" -> just(g[2])
    [] o \in {"cfgjust", "cfgjustr"} -> just(CtxToks(ctx))    \* owned, resp. through the `&T` ConfigParser impl
    [] o \in {"any", "anyr"} -> oneTok(TRUE, VT(t), {"any"})      \* anyr: any_ref(), the token taken by reference
    [] o = "oneof" -> oneTok(t \in SeqToSet(g[2]), VT(t), {"t:" \o x : x \in SeqToSet(g[2])})
    [] o = "noneof" -> oneTok(t \notin SeqToSet(g[2]), VT(t), {"else"})
    [] o \in {"sel", "selr"} -> oneTok(t \in SeqToSet(g[2]), VM("sel", VT(t)), {"else"})    \* selr: select_ref!
    [] o = "end" ->
         IF t = "" THEN [ok |-> TRUE, adv |-> 0, nc |-> c, val |-> VU, exp |-> {}, found |-> "", fs |-> 0, fe |-> 0, user |-> FALSE]
         ELSE [ok |-> FALSE, adv |-> 0, nc |-> c, val |-> VU, exp |-> {"eoi"}, found |-> t, fs |-> c, fe |-> Nxt(c), user |-> FALSE]
    [] o = "empty" -> [ok |-> TRUE, adv |-> 0, nc |-> c, val |-> VU, exp |-> {}, found |-> "", fs |-> 0, fe |-> 0, user |-> FALSE]
    \* text::newline(): custom(|inp| ..): "\r\n" or "\r" by peeking; otherwise it CONSUMES one token and fails,
    \* without rewinding, when that token is no line terminator
    [] o = "newline" ->
         IF t = "R" THEN LET two == TokAt(c + 1) = "N" IN
                         [ok |-> TRUE, adv |-> IF two THEN 2 ELSE 1, nc |-> IF two THEN c + 2 ELSE c + 1, val |-> VU,
                          exp |-> {}, found |-> "", fs |-> 0, fe |-> 0, user |-> FALSE]
         ELSE IF t \in ClsNewline
              THEN [ok |-> TRUE, adv |-> 1, nc |-> c + 1, val |-> VU, exp |-> {}, found |-> "", fs |-> 0, fe |-> 0, user |-> FALSE]
         ELSE IF t = ""
              THEN [ok |-> FALSE, adv |-> 0, nc |-> c, val |-> VU, exp |-> {"x:newline"}, found |-> "", fs |-> c, fe |-> c, user |-> TRUE]
         ELSE [ok |-> FALSE, adv |-> 1, nc |-> c + 1, val |-> VU, exp |-> {"x:newline"}, found |-> t, fs |-> c, fe |-> c + 1, user |-> TRUE]
    \* select_ref! { Tok::Group(xs) => inner input }: a group token yields its inner input
    [] o = "tree" -> oneTok(t = "(", VIn(c + 1, Nxt(c) - 1), {"else"})
    \* "ext" = Ext(T) with T: ExtParser whose `parse` and `check` are separate bodies (extension.rs): Ext::go runs one or
    \* the other depending on the mode and files the error like Custom::go does
    [] o \in {"cust", "ext"} ->
         \* custom(|inp| { k times inp.next() or Err; then Ok / Err }): fails WITHOUT rewinding
         LET a == AdvK(c, g[2], 0)
             k == a[2]
         IN
         IF k = g[2] /\ g[3]
         THEN [ok |-> TRUE, adv |-> k, nc |-> a[1], val |-> VC(k), exp |-> {}, found |-> "", fs |-> 0, fe |-> 0, user |-> FALSE]
         ELSE [ok |-> FALSE, adv |-> k, nc |-> a[1], val |-> VU, exp |-> {}, found |-> "", fs |-> c, fe |-> a[1], user |-> TRUE]

ALeaf ==
  /\ Entering(LeafOps)
  /\ LET f == Top
         r == LeafRes(f.g, cur, f.ctx)
         sp == SpanOf(r.fs, r.fe)
     IN IF r.ok
        THEN Return(OkRet(MV(f.mode, r.val)), r.nc, sec, insp + r.adv, alt)
        ELSE IF r.user
             THEN \* Custom::go: add_alt_err(before, err); cursor stays where the closure left it
                  Return(ErrRet, r.nc, sec, insp + r.adv,
                         AddAltErr(Ety, alt, cur, Norm(Ety, MkErr(sp[1], sp[2], r.found, r.exp,
                                                                IF Op(f.g) \in {"cust", "ext"} THEN "cu" ELSE "", <<>>))))
             ELSE \* span_since(before); rewind(before); add_alt(..) at the rewound cursor
                  Return(ErrRet, r.nc, sec, insp + r.adv,
                         AddAlt(Ety, alt, r.nc, r.exp, r.found, sp[1], sp[2]))

(* probe: custom(|inp| { log(id, cursor, state, ctx); Ok(()) }) -- the observer leaf *)
AProbe ==
  /\ Entering({"probe"})
  /\ RetX(OkRet(VU), cur, sec, insp, alt)
  /\ obs' = Append(obs, <<Top.g[2], cur, insp, Top.ctx>>)
  /\ UNCHANGED <<cid, memo, kf, result>>

---------------------------------------------------------------------------
(* Sequencing: then, ignore_then, then_ignore, delimited_by, padded_by,    *)
(* group((..)), group([..]) -- children run left to right, the first       *)
(* failure fails the whole, nothing is rewound here.                       *)

SeqOps == {"then", "ithen", "theni", "delim", "padded", "group", "grouparr", "lazy"}

(* children with their "forced Check mode" flag *)
Kids(g) ==
  LET o == Op(g) IN
  CASE o = "then" -> << <<g[2], FALSE>>, <<g[3], FALSE>> >>
    [] o = "ithen" -> << <<g[2], TRUE>>, <<g[3], FALSE>> >>
    [] o = "theni" -> << <<g[2], FALSE>>, <<g[3], TRUE>> >>
    [] o = "delim" -> << <<g[3], TRUE>>, <<g[2], FALSE>>, <<g[4], TRUE>> >>
    [] o = "padded" -> << <<g[3], TRUE>>, <<g[2], FALSE>>, <<g[3], TRUE>> >>
    [] o \in {"group", "grouparr"} -> [i \in DOMAIN g[2] |-> <<g[2][i], FALSE>>]
    [] o = "lazy" -> << <<g[2], FALSE>>, <<AnyRun, TRUE>> >>         \* a.then_ignore(any().repeated())
Combine(g, vs) ==
  LET o == Op(g) IN
  CASE o = "then" -> VP(vs[1], vs[2])
    [] o = "ithen" -> vs[2]
    [] o \in {"theni", "lazy"} -> vs[1]
    [] o \in {"delim", "padded"} -> vs[2]
    [] o = "group" -> VG(vs)
    [] o = "grouparr" -> VA(vs)
KidMode(f, k) == IF Kids(f.g)[k][2] THEN "C" ELSE f.mode

ASeqStart ==
  /\ Entering(SeqOps)
  /\ LET f == Top IN
     IF Kids(f.g) = <<>> THEN Keep(OkRet(MV(f.mode, Combine(f.g, <<>>))))
     ELSE Call([f EXCEPT !.pc = 1], 1, Kids(f.g)[1][1], KidMode(f, 1), cur, sec, insp, alt)

ASeqStep ==
  /\ ~st.done /\ stack # <<>> /\ ret.set /\ Op(Top.g) \in SeqOps /\ Top.pc >= 1
  /\ LET f == Top
         i == f.pc
         acc2 == Append(f.acc, ret.val)
     IN IF ~ret.ok
        THEN \* Group<[P; N]>::go keeps the outputs in a [MaybeUninit; N]: when the k-th parser fails it drops
             \* the k-1 initialised slots by hand before returning (st.leaked counts what such sites lose)
             Keep(ErrRet)
        ELSE IF i = Len(Kids(f.g)) THEN Keep(OkRet(MV(f.mode, Combine(f.g, acc2))))
        ELSE Call([f EXCEPT !.pc = i + 1, !.acc = acc2], i + 1, Kids(f.g)[i + 1][1], KidMode(f, i + 1),
                  cur, sec, insp, alt)

---------------------------------------------------------------------------
(* Ordered choice.  Tuple choice / or: save; try each; rewind after every  *)
(* failure (primitive.rs:910-928).  Slice / Vec / array choice: rewind     *)
(* BEFORE each attempt and not after the last (:959-975).                  *)

ChoiceAlts(g) == IF Op(g) = "or" THEN <<g[2], g[3]>> ELSE g[2]

AChoiceStart ==
  /\ Entering({"or", "choice", "choicev"})
  /\ LET f == Top
         alts == ChoiceAlts(f.g)
         sp == SpanOf(cur, cur)
     IN IF alts = <<>>
        THEN \* only choice(vec![]) can be empty: add_alt([], None, empty span); Err
             Return(ErrRet, cur, sec, insp, AddAlt(Ety, alt, cur, {}, "", sp[1], sp[2]))
        ELSE Call([f EXCEPT !.pc = 1], 1, alts[1], f.mode, cur, sec, insp, alt)

AChoiceAltOk ==
  /\ ~st.done /\ stack # <<>> /\ ret.set /\ Op(Top.g) \in {"or", "choice", "choicev"} /\ Top.pc >= 1
  /\ ret.ok
  /\ Keep(OkRet(ret.val))

AChoiceAltFail ==
  /\ ~st.done /\ stack # <<>> /\ ret.set /\ Op(Top.g) \in {"or", "choice", "choicev"} /\ Top.pc >= 1
  /\ ~ret.ok
  /\ LET f == Top
         alts == ChoiceAlts(f.g)
         i == f.pc
     IN IF i = Len(alts)
        THEN IF Op(f.g) = "choicev"
             THEN Keep(ErrRet)                                          \* slice choice: no rewind after the last
             ELSE Return(ErrRet, f.cp.cur, RwSec(f.cp), f.cp.insp, alt)
        ELSE Call([f EXCEPT !.pc = i + 1], i + 1, alts[i + 1], f.mode, f.cp.cur, RwSec(f.cp), f.cp.insp, alt)

---------------------------------------------------------------------------
(* or_not, rewind, and_is, not (src/combinator.rs)                         *)

AUnaryStart ==   \* combinators that just run their child first, in the mode the code uses
  /\ Entering({"ornot", "rewind", "andis", "map", "to", "ignored", "boxed", "filter", "trymapw",
               "validate", "mw", "tospan", "toslice"})
  /\ LET f == Top
         o == Op(f.g)
         m == CASE o \in {"to", "ignored", "toslice"} -> "C"
                [] o \in {"filter", "trymapw", "validate"} -> "E"
                [] OTHER -> f.mode
     IN Call([f EXCEPT !.pc = 1], 1, f.g[2], m, cur, sec, insp, alt)

AOrNotRet ==
  /\ Resuming({"ornot"}, 1)
  /\ LET f == Top IN
     IF ret.ok THEN Keep(OkRet(MV(f.mode, VO(ret.val))))
     ELSE Return(OkRet(MV(f.mode, VN)), f.cp.cur, RwSec(f.cp), f.cp.insp, alt)

(* Rewind::go: on success `inp.rewind(before)`.  InputRef::rewind also     *)
(* truncates the secondary errors, so emissions of the kept sub-parser are *)
(* lost: deviation site "rewind_trunc" (C05).  The correct branch restores *)
(* cursor and inspector only.                                              *)
ARewindRet ==
  /\ Resuming({"rewind"}, 1)
  /\ LET f == Top IN
     IF ~ret.ok THEN Keep(ErrRet)
     ELSE KfSplit("rewind_trunc",
                  ReturnK(OkRet(ret.val), f.cp.cur, sec, f.cp.insp, alt),
                  ReturnK(OkRet(ret.val), f.cp.cur, RwSec(f.cp), f.cp.insp, alt))

(* AndIs::go: A; save `after`; rewind(before); B in Check; rewind(after).  *)
AAndIsARet ==
  /\ Resuming({"andis"}, 1)
  /\ LET f == Top
         f2 == [f EXCEPT !.pc = 2, !.acc = <<ret.val>>, !.cp2 = Cp(cur, Len(sec), insp)]
     IN
     IF ~ret.ok THEN Return(ErrRet, f.cp.cur, RwSec(f.cp), f.cp.insp, alt)
     ELSE KfSplit("andis_trunc",
                  \* correct: reposition without touching the error list
                  CallK(f2, 2, f.g[3], "C", f.cp.cur, sec, f.cp.insp, alt),
                  \* the code: rewind(before) truncates A's emissions
                  CallK(f2, 2, f.g[3], "C", f.cp.cur, RwSec(f.cp), f.cp.insp, alt))

AAndIsBRet ==
  /\ Resuming({"andis"}, 2)
  /\ LET f == Top IN
     IF ret.ok THEN Return(OkRet(f.acc[1]), f.cp2.cur, RwSec(f.cp2), f.cp2.insp, alt)
     ELSE Keep(ErrRet)

(* Not::go: save; take alt; child in Check; span; rewind; put alt back;    *)
(* on child success consume one token just to report `found`.              *)
ANotStart ==
  /\ Entering({"not"})
  /\ LET f == Top IN
     Call([f EXCEPT !.pc = 1, !.salt = alt], 1, f.g[2], "C", cur, sec, insp, NoAlt)

ANotRet ==
  /\ Resuming({"not"}, 1)
  /\ LET f == Top
         sp == SpanOf(f.cp.cur, cur)
         t == TokAt(f.cp.cur)
         adv == IF t = "" THEN 0 ELSE 1
     IN IF ret.ok
        THEN Return(ErrRet, IF t = "" THEN f.cp.cur ELSE Nxt(f.cp.cur), RwSec(f.cp), f.cp.insp + adv,
                    AddAlt(Ety, f.salt, IF t = "" THEN f.cp.cur ELSE Nxt(f.cp.cur), {"else"}, t, sp[1], sp[2]))
        ELSE Return(OkRet(MV(f.mode, VU)), f.cp.cur, RwSec(f.cp), f.cp.insp, f.salt)

---------------------------------------------------------------------------
(* map, to, ignored, boxed, filter, try_map, try_map_with, validate,       *)
(* map_with, to_span, to_slice                                             *)

AMapRet ==
  /\ Resuming({"map", "to", "ignored", "boxed", "mw", "tospan", "toslice"}, 1)
  /\ LET f == Top
         o == Op(f.g)
         sp == SpanOf(f.cp.cur, cur)
         v == CASE o = "map" -> MapFn(f.g[3], ret.val)
                [] o = "to" -> VK(f.g[3])
                [] o = "ignored" -> VU
                [] o = "boxed" -> ret.val
                [] o = "mw" -> VW(ret.val, sp[1], sp[2], f.ctx, insp)
                [] o = "tospan" -> VSp(sp[1], sp[2])
                [] o = "toslice" -> VSl(sp[1], sp[2])
     IN IF ret.ok THEN Keep(OkRet(MV(f.mode, v))) ELSE Keep(ErrRet)

(* Filter::go: child in Emit; on rejection add_alt([SomethingElse], None,  *)
(* span of the match) at the cursor AFTER the match                        *)
AFilterRet ==
  /\ Resuming({"filter"}, 1)
  /\ LET f == Top
         sp == SpanOf(f.cp.cur, cur)
     IN IF ~ret.ok THEN Keep(ErrRet)
        ELSE IF Pred(f.g[3], ret.val) THEN Keep(OkRet(MV(f.mode, ret.val)))
        ELSE \* the code files the rejection at the END of the match with found = None although the span
             \* starts at a token: site "filter_found" (C06).  Correct: located where its span starts, so
             \* that position, span start and `found` agree (a rejection filed at the end with the first
             \* token as `found` would merge with an end-of-input failure into an incoherent error).
             KfSplit("filter_found",
                     ReturnK(ErrRet, cur, sec, insp, AddAlt(Ety, alt, f.cp.cur, {"else"}, TokAt(f.cp.cur), sp[1], sp[2])),
                     ReturnK(ErrRet, cur, sec, insp, AddAlt(Ety, alt, cur, {"else"}, "", sp[1], sp[2])))

(* TryMapWith::go: no sheltering; the user error goes to the cursor after the match *)
ATryMapWRet ==
  /\ Resuming({"trymapw"}, 1)
  /\ LET f == Top
         sp == SpanOf(f.cp.cur, cur)
     IN IF ~ret.ok THEN Keep(ErrRet)
        ELSE IF Pred(f.g[3], ret.val) THEN Keep(OkRet(MV(f.mode, ret.val)))
        ELSE Return(ErrRet, cur, sec, insp, AddAltErr(Ety, alt, cur, UserErr(Ety, sp[1], sp[2], "tw")))

(* TryMap::go: take the old alt; child in Emit; ...                        *)
(* "sleq" is keyword's `ident().try_map(|slice, span| if slice == kw { Ok } else { Err(expected [kw]) })`: *)
(* the same TryMap::go, the test looking at the matched input instead of the value                      *)
TMAccepts(f) == IF Op(f.g) = "sleq" THEN SubSeq(Toks, f.cp.cur + 1, cur) = f.g[3] ELSE Pred(f.g[3], ret.val)
TMErr(f, s1, e1) == IF Op(f.g) = "sleq" THEN Norm(Ety, MkErr(s1, e1, "", {"x:keyword"}, "", <<>>)) ELSE UserErr(Ety, s1, e1, "tm")
ATryMapStart ==
  /\ Entering({"trymap", "sleq"})
  /\ LET f == Top IN
     Call([f EXCEPT !.pc = 1, !.salt = alt], 1, f.g[2], "E", cur, sec, insp, NoAlt)

(* ... the child failed: `?` returns at once and the sheltered alt is      *)
(* never put back: deviation site "trymap_shelter" (C06).  The correct     *)
(* branch re-inserts the old alt and applies the inner one on top.         *)
ATryMapInnerFail ==
  /\ Resuming({"trymap", "sleq"}, 1) /\ ~ret.ok
  /\ LET f == Top IN
     KfSplit("trymap_shelter",
             ReturnK(ErrRet, cur, sec, insp, IF alt.some THEN AddAltErr(Ety, f.salt, alt.pos, alt.err) ELSE f.salt),
             ReturnK(ErrRet, cur, sec, insp, alt))

(* ... the child succeeded: accept (old alt back, inner alt re-homed to    *)
(* `before`) or reject (old alt back, user error at `before`)              *)
ATryMapRet ==
  /\ Resuming({"trymap", "sleq"}, 1) /\ ret.ok
  /\ LET f == Top
         sp == SpanOf(f.cp.cur, cur)
     IN IF TMAccepts(f)
        THEN \* the code re-homes the inner alt to `before` instead of its own position: site "trymap_rehome" (C06)
             IF ~alt.some THEN Return(OkRet(MV(f.mode, ret.val)), cur, sec, insp, f.salt)
             ELSE KfSplit("trymap_rehome",
                          ReturnK(OkRet(MV(f.mode, ret.val)), cur, sec, insp, AddAltErr(Ety, f.salt, alt.pos, alt.err)),
                          ReturnK(OkRet(MV(f.mode, ret.val)), cur, sec, insp, AddAltErr(Ety, f.salt, f.cp.cur, alt.err)))
        ELSE \* The statement does not pin where a semantic rejection lies (start or end of the
             \* rejected match): both are admissible readings, chosen once per behaviour as the
             \* OPEN choice "o:tm_end".  In either reading the inner alt is a failure of an
             \* attempted alternative and must survive.  The code instead lets the mapper error
             \* REPLACE the inner alt, however far ahead that was: site "trymap_override" (C06).
             LET merged == IF alt.some THEN AddAltErr(Ety, f.salt, alt.pos, alt.err) ELSE f.salt
                 uerr == TMErr(f, sp[1], sp[2])
             IN \/ /\ KfMay("trymap_override", "off") /\ KfMay("o:tm_end", "off")
                   /\ ReturnK(ErrRet, cur, sec, insp, AddAltErr(Ety, merged, f.cp.cur, uerr))
                   /\ kf' = KfSet("o:tm_end", "off") @@ KfSet("trymap_override", "off")
                \/ /\ KfMay("trymap_override", "off") /\ KfMay("o:tm_end", "on")
                   /\ ReturnK(ErrRet, cur, sec, insp, AddAltErr(Ety, merged, cur, uerr))
                   /\ kf' = KfSet("o:tm_end", "on") @@ KfSet("trymap_override", "off")
                \/ /\ KfMay("trymap_override", "on")
                   /\ ReturnK(ErrRet, cur, sec, insp, AddAltErr(Ety, f.salt, f.cp.cur, uerr))
                   /\ kf' = KfSet("trymap_override", "on")

(* Validate::go: child in Emit; the validator may emit; emissions are      *)
(* located at `before`                                                     *)
AValidateRet ==
  /\ Resuming({"validate"}, 1)
  /\ LET f == Top
         sp == SpanOf(f.cp.cur, cur)
         em == [pos |-> f.cp.cur, err |-> UserErr(Ety, sp[1], sp[2], "v" \o f.g[3])]
     IN IF ~ret.ok THEN Keep(ErrRet)
        ELSE Return(OkRet(MV(f.mode, ret.val)), cur,
                    IF Pred(f.g[4], ret.val) THEN sec ELSE Append(sec, em), insp, alt)

---------------------------------------------------------------------------
(* Iteration.  Iterator nodes (rep, sep, enum, cfgrep) are driven by their *)
(* consumers through the IterParser protocol: each `next` call is a frame  *)
(* with role "next" that receives the iteration count and returns          *)
(* Some(item) / None / Err together with the new count.                    *)

CtxNum(c) == IF c[1] = "I" THEN c[2] ELSE 0

(* bounds of an iterator node, after configure() *)
(* configure(): RepeatedCfg overrides at_least / at_most individually; the rest stays static. *)
(* cfgrep = exactly(n), cfgrepmin = at_least(n), cfgrepmax = at_most(n), n from the context   *)
(* cfgreptry = try_configure(|cfg, ctx, span| if n <= 2 { Ok(cfg.exactly(n)) } else { Err(user error) }):   *)
(* the configuration is computed once, in make_iter, before the first item; an Err is a failure there      *)
CfgOps == {"cfgrep", "cfgrepmin", "cfgrepmax", "cfgreptry"}
TryCfgFails(it, ctx) == Op(it) = "cfgreptry" /\ CtxNum(ctx) > 2
CfgLo(it, ctx) == IF Op(it) \in {"cfgrep", "cfgrepmin", "cfgreptry"} THEN CtxNum(ctx) ELSE it[2][3]
CfgHi(it, ctx) == IF Op(it) \in {"cfgrep", "cfgrepmax", "cfgreptry"} THEN CtxNum(ctx) ELSE it[2][4]
IterLo(it, ctx) == IF Op(it) \in CfgOps THEN CfgLo(it, ctx) ELSE IF Op(it) = "enum" THEN it[2][3] ELSE it[3]
IterHi(it, ctx) == IF Op(it) \in CfgOps THEN CfgHi(it, ctx) ELSE IF Op(it) = "enum" THEN it[2][4] ELSE it[4]

NextEntering(ops) == /\ ~st.done /\ stack # <<>> /\ ~ret.set /\ Top.role = "next" /\ Op(Top.g) \in ops

(* Repeated::next / next_cfg (combinator.rs:1587-1651) *)
ARepNext ==
  /\ NextEntering({"rep"})
  /\ LET f == Top IN
     IF ~LtHi(f.n, f.g[4]) THEN Keep(NoneRet(f.n))
     ELSE Call([f EXCEPT !.pc = 1], 1, f.g[2], f.mode, cur, sec, insp, alt)

ARepNextRet ==
  /\ Resuming({"rep"}, 1) /\ Top.role = "next"
  /\ LET f == Top IN
     IF ret.ok THEN Keep(SomeRet(ret.val, f.n + 1))
     ELSE IF f.n >= f.g[3] THEN Return(NoneRet(f.n), f.cp.cur, RwSec(f.cp), f.cp.insp, alt)
     ELSE Return(ErrRet, f.cp.cur, RwSec(f.cp), f.cp.insp, alt)

(* repeated().configure(|cfg, ctx| ..) -> Repeated::next_cfg: the same loop with the bounds of the config *)
ACfgRepNext ==
  /\ NextEntering(CfgOps)
  /\ LET f == Top IN
     IF ~LtHi(f.n, CfgHi(f.g, f.ctx)) THEN Keep(NoneRet(f.n))
     ELSE Call([f EXCEPT !.pc = 1], 1, f.g[2][2], f.mode, cur, sec, insp, alt)

ACfgRepNextRet ==
  /\ Resuming(CfgOps, 1) /\ Top.role = "next"
  /\ LET f == Top IN
     IF ret.ok THEN Keep(SomeRet(ret.val, f.n + 1))
     ELSE IF f.n >= CfgLo(f.g, f.ctx) THEN Return(NoneRet(f.n), f.cp.cur, RwSec(f.cp), f.cp.insp, alt)
     ELSE Return(ErrRet, f.cp.cur, RwSec(f.cp), f.cp.insp, alt)

(* Enumerate::next: delegates, pairs the item with its index *)
AEnumNext ==
  /\ NextEntering({"enum"})
  /\ LET f == Top IN
     CallIter([f EXCEPT !.pc = 1], 1, f.g[2], f.mode, f.n, cur, sec, insp, alt)

AEnumNextRet ==
  /\ Resuming({"enum"}, 1) /\ Top.role = "next"
  /\ LET f == Top IN
     IF ~ret.ok THEN Keep(ErrRet)
     ELSE IF ret.some THEN Keep(SomeRet(MV(f.mode, VP(VI(f.n), ret.val)), ret.n))
     ELSE Keep(NoneRet(ret.n))

(* SeparatedBy::next (combinator.rs:1844-1901)                             *)
(*   g = <<"sep", item, sep, lo, hi, lead, trail>>                         *)
(*   cp = before_separator, cp2 = before_item                              *)
ASepNext ==
  /\ NextEntering({"sep"})
  /\ LET f == Top IN
     IF ~LtHi(f.n, f.g[5]) THEN Keep(NoneRet(f.n))
     ELSE IF f.n = 0 /\ f.g[6]
          THEN Call([f EXCEPT !.pc = 1], 2, f.g[3], "C", cur, sec, insp, alt)      \* optional leading separator
     ELSE IF f.n > 0
          THEN Call([f EXCEPT !.pc = 2], 2, f.g[3], "C", cur, sec, insp, alt)      \* separator between items
     ELSE Call([f EXCEPT !.pc = 3], 1, f.g[2], f.mode, cur, sec, insp, alt)         \* first item

ASepLeadRet ==
  /\ Resuming({"sep"}, 1)
  /\ LET f == Top IN
     IF ret.ok
     THEN Call([f EXCEPT !.pc = 3, !.cp2 = Cp(cur, Len(sec), insp)], 1, f.g[2], f.mode, cur, sec, insp, alt)
     ELSE Call([f EXCEPT !.pc = 3], 1, f.g[2], f.mode, f.cp.cur, RwSec(f.cp), f.cp.insp, alt)

ASepSepRet ==
  /\ Resuming({"sep"}, 2)
  /\ LET f == Top IN
     IF ret.ok
     THEN Call([f EXCEPT !.pc = 3, !.cp2 = Cp(cur, Len(sec), insp)], 1, f.g[2], f.mode, cur, sec, insp, alt)
     ELSE IF f.n < f.g[4] THEN Return(ErrRet, f.cp.cur, RwSec(f.cp), f.cp.insp, alt)
     ELSE Return(NoneRet(f.n), f.cp.cur, RwSec(f.cp), f.cp.insp, alt)

ASepItemRet ==
  /\ Resuming({"sep"}, 3)
  /\ LET f == Top IN
     IF ret.ok THEN Keep(SomeRet(ret.val, f.n + 1))
     ELSE IF f.n < f.g[4] THEN Return(ErrRet, f.cp.cur, RwSec(f.cp), f.cp.insp, alt)
     ELSE IF f.g[7] THEN Return(NoneRet(f.n), f.cp2.cur, RwSec(f.cp2), f.cp2.insp, alt)   \* allow_trailing: keep the separator
     ELSE Return(NoneRet(f.n), f.cp.cur, RwSec(f.cp), f.cp.insp, alt)

(* IntoIter (p.into_iter()): make_iter runs p ONCE, in Emit mode whatever the caller's mode (the items are needed), *)
(* and `next` hands out the elements of its output without touching the input.  The iteration state is not a count  *)
(* but what is left of the list: <<"new">> before make_iter, <<"it", remaining items>> afterwards.                  *)
IterStart(it) == IF Op(it) = "intoiter" THEN <<"new">> ELSE 0
IntoIterYield(f, items) ==
  IF items = <<>> THEN Keep(NoneRet(<<"it", <<>>>>)) ELSE Keep(SomeRet(MV(f.mode, Head(items)), <<"it", Tail(items)>>))
AIntoIterNext ==
  /\ NextEntering({"intoiter"})
  /\ LET f == Top IN
     IF f.n = <<"new">> THEN Call([f EXCEPT !.pc = 1], 1, f.g[2], "E", cur, sec, insp, alt)
     ELSE IntoIterYield(f, f.n[2])
AIntoIterRet ==
  /\ Resuming({"intoiter"}, 1) /\ Top.role = "next"
  /\ LET f == Top IN
     IF ~ret.ok THEN Keep(ErrRet) ELSE IntoIterYield(f, ret.val[2])

(* Consumers.  collect (Collect::go), collect_exactly (CollectExactly::go),*)
(* foldl, foldr, and an iterator used directly as a parser ("run":         *)
(* Repeated::go with its unbounded fast path, SeparatedBy::go).            *)

IterMode(f) == IF Op(f.g) = "run" THEN "C" ELSE f.mode

AConsumerStart ==
  /\ Entering({"collect", "exact", "run", "foldr", "foldrw"})
  /\ LET f == Top
         it == f.g[2]
     IN IF Op(f.g) = "run" /\ Op(it) = "rep" /\ it[3] = 0 /\ it[4] = Inf
        THEN \* Repeated::go fast path: loop { save; item in Check; on Err rewind and stop }
             Call([f EXCEPT !.pc = 9], 1, it[2], "C", cur, sec, insp, alt)
        ELSE IF Op(f.g) = "run" /\ Op(it) = "intoiter"
        THEN \* IntoIter as a plain parser: its parser in Check mode, the output thrown away
             Call([f EXCEPT !.pc = 8], 1, it[2], "C", cur, sec, insp, alt)
        ELSE IF TryCfgFails(it, f.ctx)
        THEN \* TryIterConfigure::make_iter: add_alt_err(cursor, the closure's error), fail before any item
             LET sp == SpanOf(cur, cur) IN Return(ErrRet, cur, sec, insp, AddAltErr(Ety, alt, cur, UserErr(Ety, sp[1], sp[2], "tc")))
        ELSE IF Op(f.g) = "exact" /\ f.g[3] = 0
        THEN Keep(OkRet(MV(f.mode, VA(<<>>))))
        ELSE CallIter([f EXCEPT !.pc = 1], 1, it, IterMode(f), IterStart(it), cur, sec, insp, alt)

ARunIntoIterRet ==
  /\ Resuming({"run"}, 8)
  /\ IF ret.ok THEN Keep(OkRet(MV(Top.mode, VU))) ELSE Keep(ErrRet)

ARunFastRet ==
  /\ Resuming({"run"}, 9)
  /\ LET f == Top IN
     IF ret.ok
     THEN Call([f EXCEPT !.cp2 = Cp(cur, Len(sec), insp)], 1, f.g[2][2], "C", cur, sec, insp, alt)
     ELSE Return(OkRet(MV(f.mode, VU)), f.cp2.cur, RwSec(f.cp2), f.cp2.insp, alt)

ACollectRet ==
  /\ Resuming({"collect", "run"}, 1)
  /\ LET f == Top
         acc2 == Append(f.acc, ret.val)
     IN IF ~ret.ok THEN Keep(ErrRet)
        ELSE IF ret.some
        THEN CallIter([f EXCEPT !.acc = IF f.mode = "E" /\ Op(f.g) = "collect" THEN acc2 ELSE <<>>],
                      1, f.g[2], IterMode(f), ret.n, cur, sec, insp, alt)
        ELSE Keep(OkRet(MV(f.mode, IF Op(f.g) = "run" THEN VU ELSE Sink(f.g[3], f.acc))))

(* collect_exactly::<[T; N]>: exactly N `next` calls; after N items the iterator is not asked   *)
(* again.  A None before that is a failure: the iterator may have stopped without any parser    *)
(* failing (an upper bound below N), so CollectExactly::go records an alt of its own there      *)
(* (no expectations, the next token as `found`) -- peeking one token and rewinding -- and drops *)
(* the initialised prefix of the array (drop_before(idx)): nothing leaks.                        *)
AExactRet ==
  /\ Resuming({"exact"}, 1)
  /\ LET f == Top
         acc2 == Append(f.acc, ret.val)
         t == TokAt(cur)
         sp == SpanOf(cur, IF t = "" THEN cur ELSE Nxt(cur))
     IN IF ~ret.ok THEN Keep(ErrRet)
        ELSE IF ~ret.some THEN Return(ErrRet, cur, sec, insp, AddAlt(Ety, alt, cur, {}, t, sp[1], sp[2]))
        ELSE IF Len(acc2) = f.g[3] THEN Keep(OkRet(MV(f.mode, VA(acc2))))
        ELSE CallIter([f EXCEPT !.acc = acc2], 1, f.g[2], f.mode, ret.n, cur, sec, insp, alt)

(* Foldl::go: A, then fold the items of the iterator B from the left *)
AFoldlStart ==
  /\ Entering({"foldl", "foldlw"})
  /\ LET f == Top IN Call([f EXCEPT !.pc = 1], 1, f.g[2], f.mode, cur, sec, insp, alt)

AFoldlARet ==
  /\ Resuming({"foldl", "foldlw"}, 1)
  /\ LET f == Top IN
     IF ~ret.ok THEN Keep(ErrRet)
     ELSE CallIter([f EXCEPT !.pc = 2, !.acc = <<ret.val>>], 2, f.g[3], f.mode, IterStart(f.g[3]), cur, sec, insp, alt)

(* foldl_with: the folder also sees the span from the start of A to the end of the item just *)
(* folded in (MapExtra::new(&before_all, inp)), the context and the state                     *)
AFoldlItRet ==
  /\ Resuming({"foldl", "foldlw"}, 2)
  /\ LET f == Top
         sp == SpanOf(f.cp.cur, cur)
         step == IF Op(f.g) = "foldl" THEN VF(f.g[4], f.acc[1], ret.val)
                 ELSE VW(VF(f.g[4], f.acc[1], ret.val), sp[1], sp[2], f.ctx, insp)
     IN
     IF ~ret.ok THEN Keep(ErrRet)
     ELSE IF ret.some
     THEN CallIter([f EXCEPT !.acc = <<MV(f.mode, step)>>], 2, f.g[3], f.mode, ret.n, cur, sec, insp, alt)
     ELSE Keep(OkRet(f.acc[1]))

(* Foldr::go: collect the items of iterator A, then B, then fold from the right *)
(* foldr_with remembers the cursor before each item (cp2 is refreshed before every `next`);   *)
(* after B every fold step sees the span from that cursor to the END of everything            *)
AFoldrItRet ==
  /\ Resuming({"foldr", "foldrw"}, 1)
  /\ LET f == Top IN
     IF ~ret.ok THEN Keep(ErrRet)
     ELSE IF ret.some
     THEN CallIter([f EXCEPT !.acc = Append(f.acc, <<ret.val, f.cp2.cur>>), !.cp2 = Cp(cur, Len(sec), insp)],
                   1, f.g[2], f.mode, ret.n, cur, sec, insp, alt)
     ELSE Call([f EXCEPT !.pc = 2], 2, f.g[3], f.mode, cur, sec, insp, alt)

RECURSIVE FoldRW(_, _, _, _, _, _)
FoldRW(fn, items, acc, c, ic, cend) ==
  IF items = <<>> THEN acc
  ELSE LET sp == SpanOf(Head(items)[2], cend) IN
       VW(VF(fn, Head(items)[1], FoldRW(fn, Tail(items), acc, c, ic, cend)), sp[1], sp[2], c, ic)

AFoldrBRet ==
  /\ Resuming({"foldr", "foldrw"}, 2)
  /\ LET f == Top
         vals == [i \in DOMAIN f.acc |-> f.acc[i][1]]
     IN
     IF ~ret.ok THEN Keep(ErrRet)
     ELSE IF Op(f.g) = "foldr" THEN Keep(OkRet(MV(f.mode, FoldR(f.g[4], vals, ret.val))))
     ELSE Keep(OkRet(MV(f.mode, FoldRW(f.g[4], f.acc, ret.val, f.ctx, insp, cur))))


---------------------------------------------------------------------------
(* Error recovery (src/recovery.rs).  RecoverWith::go: save; A; on failure  *)
(* rewind and run the strategy; if that fails too rewind again and fail.    *)
(*   pc 1: A          pc 2: via_parser fallback                             *)
(*   pc 3/4: skip_until: until attempt / skip step                          *)
(*   pc 5/6/7: skip_then_retry_until: until attempt / skip step / retry     *)
(* Every strategy starts with `take_alt().unwrap()`: "can't fail" -- if no  *)
(* pending error exists the real code panics (Panic).                       *)

(* a "can't fail" unwrap hit: the real code panics; the parse ends here *)
Panic ==
  /\ result' = [ok |-> FALSE, out |-> VU, errs |-> <<>>, panic |-> TRUE, insp |-> insp, leaked |-> st.leaked]
  /\ st' = [st EXCEPT !.done = TRUE, !.panicked = TRUE]
  /\ UNCHANGED <<cid, stack, ret, cur, alt, sec, insp, memo, kf, obs>>

Emit(sq, at, er) == Append(sq, [pos |-> at, err |-> er])

ARecoverStart ==
  /\ Entering({"recover"})
  /\ LET f == Top IN Call([f EXCEPT !.pc = 1], 1, f.g[2], f.mode, cur, sec, insp, alt)

ARecoverARet ==
  /\ Resuming({"recover"}, 1)
  /\ LET f == Top
         s == f.g[3]
         rsec == RwSec(f.cp)
         cpn == Cp(f.cp.cur, Len(rsec), f.cp.insp)
         f2 == [f EXCEPT !.salt = alt, !.cp2 = cpn]
     IN IF ret.ok THEN Keep(OkRet(ret.val))
        ELSE IF ~alt.some THEN Panic
        ELSE CASE Op(s) = "via" ->
                    Call([f2 EXCEPT !.pc = 2], 2, s[2], f.mode, f.cp.cur, rsec, f.cp.insp, NoAlt)
               \* via_parser(nested_delimiters(start, end, others, fallback)): the fallback parser is the grammar
               \* recovery.rs builds (s[5]); the strategy is via_parser
               [] Op(s) = "nesteddelim" ->
                    Call([f2 EXCEPT !.pc = 2], 2, s[5], f.mode, f.cp.cur, rsec, f.cp.insp, NoAlt)
               [] Op(s) = "skipuntil" ->
                    Call([f2 EXCEPT !.pc = 3], 3, s[3], "C", f.cp.cur, rsec, f.cp.insp, NoAlt)
               [] Op(s) = "retry" ->
                    Call([f2 EXCEPT !.pc = 5], 3, s[3], "C", f.cp.cur, rsec, f.cp.insp, NoAlt)

(* the strategy failed: `inp.errors.alt = Some(alt)`, then RecoverWith rewinds to `before` *)
RecoverGiveUp(f) == Return(ErrRet, f.cp.cur, RwSec(f.cp), f.cp.insp, f.salt)

ARecoverViaRet ==
  /\ Resuming({"recover"}, 2)
  /\ LET f == Top IN
     IF ret.ok THEN Return(OkRet(ret.val), cur, Emit(sec, cur, f.salt.err), insp, alt)
     ELSE RecoverGiveUp(f)

ASkipUntilUntilRet ==
  /\ Resuming({"recover"}, 3)
  /\ LET f == Top
         s == f.g[3]
     IN IF ret.ok
        THEN Return(OkRet(MV(f.mode, VE("su"))), cur, Emit(sec, cur, f.salt.err), insp, alt)
        ELSE Call([f EXCEPT !.pc = 4], 2, s[2], "C", f.cp2.cur, RwSec(f.cp2), f.cp2.insp, alt)

ASkipUntilSkipRet ==
  /\ Resuming({"recover"}, 4)
  /\ LET f == Top
         s == f.g[3]
     IN IF ret.ok
        THEN Call([f EXCEPT !.pc = 3, !.cp2 = Cp(cur, Len(sec), insp)], 3, s[3], "C", cur, sec, insp, alt)
        ELSE RecoverGiveUp(f)

ARetryUntilRet ==
  /\ Resuming({"recover"}, 5)
  /\ LET f == Top
         s == f.g[3]
     IN IF ret.ok THEN RecoverGiveUp(f)
        ELSE Call([f EXCEPT !.pc = 6], 2, s[2], "C", f.cp2.cur, RwSec(f.cp2), f.cp2.insp, alt)

ARetrySkipRet ==
  /\ Resuming({"recover"}, 6)
  /\ LET f == Top IN
     IF ~ret.ok THEN RecoverGiveUp(f)
     ELSE Call([f EXCEPT !.pc = 7, !.cp2 = Cp(cur, Len(sec), insp)], 1, f.g[2], f.mode, cur, sec, insp, alt)

ARetryRetryRet ==
  /\ Resuming({"recover"}, 7)
  /\ LET f == Top
         s == f.g[3]
     IN IF ret.ok /\ Len(sec) = f.cp2.nsec           \* accept only a retry that emitted nothing
        THEN Return(OkRet(ret.val), cur, Emit(sec, cur, f.salt.err), insp, alt)
        ELSE \* `inp.errors.alt.take(); inp.rewind(before)` and go round the loop
             Call([f EXCEPT !.pc = 5], 3, s[3], "C", f.cp2.cur, RwSec(f.cp2), f.cp2.insp, NoAlt)

---------------------------------------------------------------------------
(* labelled / as_context (src/label.rs) and map_err (MapErrWithState::go)  *)

ALabelStart ==
  /\ Entering({"label", "maperr"})
  /\ LET f == Top IN Call([f EXCEPT !.pc = 1, !.salt = alt], 1, f.g[2], f.mode, cur, sec, insp, NoAlt)

ALabelRet ==
  /\ Resuming({"label"}, 1)
  /\ LET f == Top
         l == "l:" \o f.g[3]
         isctx == f.g[4]
         before == f.cp.cur
         na == IF ~alt.some THEN alt
               ELSE IF alt.pos = before THEN [alt EXCEPT !.err = LabelWith(Ety, @, l)]
               ELSE IF isctx /\ alt.pos > before
                    THEN LET sp == SpanOf(before, alt.pos) IN [alt EXCEPT !.err = InContext(Ety, @, l, sp[1], sp[2])]
               ELSE alt
         alt2 == IF na.some THEN AddAltErr(Ety, f.salt, na.pos, na.err) ELSE f.salt
         sec2 == IF isctx
                 THEN [i \in DOMAIN sec |->
                         IF i > f.cp.nsec
                         THEN LET sp == SpanOf(before, sec[i].pos) IN [sec[i] EXCEPT !.err = InContext(Ety, @, l, sp[1], sp[2])]
                         ELSE sec[i]]
                 ELSE sec
     IN Return([ret EXCEPT !.fr = NoFrame], cur, sec2, insp, alt2)

(* MapErrWithState::go takes the old alt away and puts it back only when   *)
(* its parser FAILED; on success the pending error of earlier alternatives *)
(* is silently dropped: deviation site "maperr_drop" (C17, C06).           *)
AMapErrRet ==
  /\ Resuming({"maperr"}, 1)
  /\ LET f == Top IN
     IF ret.ok
     THEN KfSplit("maperr_drop",
                  ReturnK(OkRet(ret.val), cur, sec, insp,
                          IF alt.some THEN AddAltErr(Ety, f.salt, alt.pos, alt.err) ELSE f.salt),
                  ReturnK(OkRet(ret.val), cur, sec, insp, alt))
     ELSE IF ~alt.some THEN Panic
     ELSE Return(ErrRet, cur, sec, insp, AddAltErr(Ety, f.salt, alt.pos, MapErrFn(Ety, f.g[3], alt.err)))

---------------------------------------------------------------------------
(* memoized (Memoized::go).  The table is keyed (position, identity of the *)
(* memoized node); an entry is either "in progress" (left-recursion cut)   *)
(* or the pending error left by the failure.                               *)

MemoHas(k) == k \in DOMAIN memo
(* In a statically typed parser tree (no Box between nodes) distinct memoized parsers can have the SAME       *)
(* address: a memoized parser that is the first field of the parser wrapped by an outer memoized(), zero-sized *)
(* siblings.  Which ones collide depends on the struct layout, so the defect branch of site "memo_alias" (C11,  *)
(* same root cause as "memo_nested") takes an arbitrary partition of the memoized sub-grammars, fixed in Init   *)
(* (st.alias maps each to the representative of its class), and keys the table by class.                        *)
StaticKinds == {"static", "staticc"}
AliasOn == "memo_alias" \in DOMAIN kf /\ kf["memo_alias"] = "on"
MemoKey(f, c) == IF AliasOn THEN <<c, st.alias[f.g]>> ELSE <<c, f.path>>
(* The real key is (position, ADDRESS of the wrapped parser).  For `p.memoized().memoized()` the *)
(* inner Memoized is the first field of the outer one, so both compute the same address: the    *)
(* inner lookup finds the outer's in-progress marker and fails as if it were left recursion:    *)
(* deviation site "memo_nested" (C11).  The correct branch uses the node identity.              *)
DirectlyNestedMemo == Len(stack) >= 2 /\ Op(stack[Len(stack) - 1].g) = "memo" /\ stack[Len(stack) - 1].pc = 1
MemoLookup(f) ==
  LET k == MemoKey(f, cur)
      sp == SpanOf(cur, cur)
  IN IF MemoHas(k)
     THEN /\ IF memo[k].some
             THEN RetX(ErrRet, cur, sec, insp, AddAltErr(Ety, alt, memo[k].pos, memo[k].err))
             ELSE RetX(ErrRet, cur, sec, insp, AddAlt(Ety, alt, cur, {}, "", sp[1], sp[2]))
          /\ UNCHANGED <<cid, memo, obs, result>>
     ELSE /\ CallX([f EXCEPT !.pc = 1], f.g[2], f.mode, f.ctx, f.env, Append(f.path, 1), "go", 0, cur, sec, insp, alt)
          /\ memo' = (k :> NoAlt) @@ memo
          /\ UNCHANGED <<cid, obs, result>>
AMemoStart ==
  /\ Entering({"memo"})
  /\ LET f == Top
         sp == SpanOf(cur, cur)
     IN IF DirectlyNestedMemo
        THEN KfSplit("memo_nested",
                     MemoLookup(f),
                     /\ RetX(ErrRet, cur, sec, insp, AddAlt(Ety, alt, cur, {}, "", sp[1], sp[2]))
                     /\ UNCHANGED <<cid, memo, obs, result>>)
        ELSE MemoLookup(f) /\ UNCHANGED kf

AMemoRet ==
  /\ Resuming({"memo"}, 1)
  /\ LET f == Top
         k == MemoKey(f, f.cp.cur)
     IN /\ RetX([ret EXCEPT !.fr = NoFrame], cur, sec, insp, alt)
        /\ memo' = IF ret.ok THEN [x \in DOMAIN memo \ {k} |-> memo[x]] ELSE [memo EXCEPT ![k] = alt]
        /\ UNCHANGED <<cid, kf, obs, result>>

---------------------------------------------------------------------------
(* recursive(..): `rec` binds its body, `ref k` calls the k-th enclosing   *)
(* body (1 = innermost).  Environment entries remember the body's static   *)
(* path so that identities (memo keys) do not depend on the call depth.    *)

ARecStart ==
  /\ Entering({"rec", "recd"})
  /\ LET f == Top
         bp == Append(f.path, 1)
     IN /\ CallX([f EXCEPT !.pc = 1], f.g[2], f.mode, f.ctx, <<[body |-> f.g[2], path |-> bp]>> \o f.env, bp, "go", 0,
                 cur, sec, insp, alt)
        /\ UNCHANGED <<cid, memo, kf, obs, result>>

ARefStart ==
  /\ Entering({"ref"})
  /\ LET f == Top
         k == f.g[2]
     IN /\ CallX([f EXCEPT !.pc = 1], f.env[k].body, f.mode, f.ctx, SubSeq(f.env, k, Len(f.env)), f.env[k].path, "go", 0,
                 cur, sec, insp, alt)
        /\ UNCHANGED <<cid, memo, kf, obs, result>>

(* let / var: one parser VALUE used at several places (clones of a boxed parser share the     *)
(* allocation, hence the identity that memoized() keys on).  `let` binds a definition for its *)
(* body, `var k` runs the k-th enclosing definition in the definition's own environment.      *)
ALetStart ==
  /\ Entering({"let"})
  /\ LET f == Top IN
     /\ CallX([f EXCEPT !.pc = 1], f.g[3], f.mode, f.ctx, <<[body |-> f.g[2], path |-> Append(f.path, 1)]>> \o f.env,
              Append(f.path, 2), "go", 0, cur, sec, insp, alt)
     /\ UNCHANGED <<cid, memo, kf, obs, result>>

AVarStart ==
  /\ Entering({"var"})
  /\ LET f == Top
         k == f.g[2]
     IN /\ CallX([f EXCEPT !.pc = 1], f.env[k].body, f.mode, f.ctx, SubSeq(f.env, k + 1, Len(f.env)), f.env[k].path, "go", 0,
                 cur, sec, insp, alt)
        /\ UNCHANGED <<cid, memo, kf, obs, result>>

(* text parsers (C14): the machine runs the grammar src/text.rs builds them from (g[4]) *)
ATextStart ==
  /\ Entering({"text"})
  /\ LET f == Top IN Call([f EXCEPT !.pc = 1], 1, f.g[4], f.mode, cur, sec, insp, alt)

(* Padded::go: skip_while(is_whitespace); A; skip_while(is_whitespace) -- no checkpoints, no failure of its own *)
RECURSIVE SkipWs(_)
SkipWs(c) == IF TokAt(c) \in ClsWs THEN SkipWs(c + 1) ELSE c
ATPaddedStart ==
  /\ Entering({"tpadded"})
  /\ LET f == Top
         c2 == SkipWs(cur)
     IN Call([f EXCEPT !.pc = 1], 1, f.g[2], f.mode, c2, sec, insp + (c2 - cur), alt)
ATPaddedRet ==
  /\ Resuming({"tpadded"}, 1)
  /\ LET c2 == SkipWs(cur) IN
     IF ret.ok THEN Return(OkRet(ret.val), c2, sec, insp + (c2 - cur), alt) ELSE Keep(ErrRet)

APassRet ==      \* rec, ref, let, var, with_ctx, map_ctx, text: the child's result is the result
  /\ Resuming({"rec", "recd", "ref", "let", "var", "withctx", "mapctx", "text"}, 1)
  /\ Keep([ret EXCEPT !.fr = NoFrame])

---------------------------------------------------------------------------
(* context: with_ctx, map_ctx, then_with_ctx, ignore_with_ctx              *)

AWithCtxStart ==
  /\ Entering({"withctx", "mapctx"})
  /\ LET f == Top
         c == IF Op(f.g) = "withctx" THEN f.g[2] ELSE MapFn(f.g[2], f.ctx)
     IN /\ CallX([f EXCEPT !.pc = 1], f.g[3], f.mode, c, f.env, Append(f.path, 1), "go", 0, cur, sec, insp, alt)
        /\ UNCHANGED <<cid, memo, kf, obs, result>>

AThenCtxStart ==
  /\ Entering({"thenctx", "ignctx"})
  /\ LET f == Top IN Call([f EXCEPT !.pc = 1], 1, f.g[2], "E", cur, sec, insp, alt)

AThenCtxARet ==
  /\ Resuming({"thenctx", "ignctx"}, 1)
  /\ LET f == Top IN
     IF ~ret.ok THEN Keep(ErrRet)
     ELSE /\ CallX([f EXCEPT !.pc = 2, !.acc = <<ret.val>>], f.g[3], f.mode, ret.val, f.env, Append(f.path, 2), "go", 0,
                   cur, sec, insp, alt)
          /\ UNCHANGED <<cid, memo, kf, obs, result>>

AThenCtxBRet ==
  /\ Resuming({"thenctx", "ignctx"}, 2)
  /\ LET f == Top IN
     IF ~ret.ok THEN Keep(ErrRet)
     ELSE IF Op(f.g) = "thenctx" THEN Keep(OkRet(MV(f.mode, VP(f.acc[1], ret.val))))
     ELSE Keep(OkRet(ret.val))

(* with_state(s): the sub-parser runs on a fresh clone of `s`; the outer   *)
(* state does not see the tokens consumed inside and is left untouched     *)
AWithStateStart ==
  /\ Entering({"withstate"})
  /\ LET f == Top IN Call([f EXCEPT !.pc = 1, !.n = insp], 1, f.g[2], f.mode, cur, sec, 0, alt)

AWithStateRet ==
  /\ Resuming({"withstate"}, 1)
  /\ Return([ret EXCEPT !.fr = NoFrame], cur, sec, Top.n, alt)


---------------------------------------------------------------------------
(* <<"extsub", a>>: an extension parser whose bodies run a sub-parser through InputRef::parse (in Emit mode) resp.   *)
(* InputRef::check (in Check mode).  Both return the sub-parser's failure as a value: `take_alt().unwrap().err` -- the *)
(* WHOLE pending error is taken -- and Ext::go files it again at the position where the extension parser started.   *)
AExtSubStart ==
  /\ Entering({"extsub"})
  /\ LET f == Top IN Call([f EXCEPT !.pc = 1], 1, f.g[2], f.mode, cur, sec, insp, alt)
AExtSubRet ==
  /\ Resuming({"extsub"}, 1)
  /\ LET f == Top IN
     IF ret.ok THEN Keep(OkRet(ret.val))
     ELSE IF ~alt.some THEN Panic
     ELSE Return(ErrRet, cur, sec, insp, AddAltErr(Ety, NoAlt, f.cp.cur, alt.err))

---------------------------------------------------------------------------
(* <<"prog", ins, subs>>: custom(|inp| ..) whose closure is a straight-line program over InputRef's PUBLIC methods,   *)
(* one instruction = one method call = one step of the machine:                                                       *)
(*   <<"n">>     inp.next()      None => return Err(user error over span_since(start))                                *)
(*   <<"s">>     inp.skip()      (nothing happens at the end of the input)                                            *)
(*   <<"p", t>>  inp.peek()      something other than Some(t) => return Err                                           *)
(*   <<"sv">>    c = inp.save()  (one checkpoint register: frame field cp2)                                           *)
(*   <<"rw">>    inp.rewind(c)   (truncates the secondary errors, restores the inspector, moves the cursor)           *)
(*   <<"sub", k> inp.parse(&subs[k])   <<"chk", k>> inp.check(&subs[k]):  Err(e) => return Err(e), where e is the     *)
(*               WHOLE pending error (take_alt().unwrap().err)                                                        *)
(*   <<"f">>     return Err(user error over span_since(start))                                                        *)
(*   <<"nm">>    inp.next_maybe() (as next)   <<"pm", t>>  inp.peek_maybe() (as peek)                                 *)
(*   observers (their answers are collected and returned with the final span):                                        *)
(*   <<"ss">>    inp.span_since(c.cursor())   <<"st">>  *inp.state() (the inspector)   <<"cx">>  inp.ctx()             *)
(* Falling off the end returns Ok(span_since(start)).  Custom::go files a returned error with add_alt_err at the      *)
(* position where the closure started; the cursor stays wherever the closure left it.                                 *)
ProgEntering == /\ ~st.done /\ stack # <<>> /\ ~ret.set /\ Op(Top.g) = "prog"
ProgStay(f2, ncur, nsec, ninsp) ==
  /\ stack' = [stack EXCEPT ![Len(stack)] = f2]
  /\ cur' = ncur /\ sec' = nsec /\ insp' = ninsp
  /\ ret' = NoRet /\ Tick
  /\ UNCHANGED <<cid, alt, memo, kf, obs, result>>
ProgFail(f, er) == Return(ErrRet, cur, sec, insp, AddAltErr(Ety, alt, f.cp.cur, er))
ProgUserErr(f) == LET sp == SpanOf(f.cp.cur, cur) IN UserErr(Ety, sp[1], sp[2], "cu")

AProgStep ==
  /\ ProgEntering
  /\ LET f == Top
         i == f.pc + 1                     \* pc = number of instructions done
         ins == f.g[2]
         nx == [f EXCEPT !.pc = i]
         t == TokAt(cur)
     IN IF i > Len(ins)
        THEN LET sp == SpanOf(f.cp.cur, cur) IN
             Keep(OkRet(MV(f.mode, IF f.acc = <<>> THEN VSp(sp[1], sp[2]) ELSE VP(VL(f.acc), VSp(sp[1], sp[2])))))
        ELSE LET o == ins[i] IN
             CASE o[1] \in {"n", "nm"} -> IF t = "" THEN ProgFail(f, ProgUserErr(f)) ELSE ProgStay(nx, Nxt(cur), sec, insp + 1)
               [] o[1] = "s" -> IF t = "" THEN ProgStay(nx, cur, sec, insp) ELSE ProgStay(nx, Nxt(cur), sec, insp + 1)
               [] o[1] \in {"p", "pm"} -> IF t = o[2] THEN ProgStay(nx, cur, sec, insp) ELSE ProgFail(f, ProgUserErr(f))
               [] o[1] = "ss" -> LET sp == SpanOf(f.cp2.cur, cur) IN ProgStay([nx EXCEPT !.acc = Append(@, VSp(sp[1], sp[2]))], cur, sec, insp)
               [] o[1] = "st" -> ProgStay([nx EXCEPT !.acc = Append(@, VI(insp))], cur, sec, insp)
               [] o[1] = "cx" -> ProgStay([nx EXCEPT !.acc = Append(@, f.ctx)], cur, sec, insp)
               [] o[1] = "sv" -> ProgStay([nx EXCEPT !.cp2 = Cp(cur, Len(sec), insp)], cur, sec, insp)
               [] o[1] = "rw" -> ProgStay(nx, f.cp2.cur, RwSec(f.cp2), f.cp2.insp)
               [] o[1] = "f" -> ProgFail(f, ProgUserErr(f))
               [] o[1] \in {"sub", "chk"} -> Call(nx, o[2], f.g[3][o[2]], IF o[1] = "sub" THEN "E" ELSE "C", cur, sec, insp, alt)

AProgSubRet ==
  /\ ~st.done /\ stack # <<>> /\ ret.set /\ Op(Top.g) = "prog"
  /\ LET f == Top IN
     IF ret.ok THEN ProgStay(f, cur, sec, insp)
     ELSE IF ~alt.some THEN Panic
     ELSE Return(ErrRet, cur, sec, insp, AddAltErr(Ety, NoAlt, f.cp.cur, alt.err))

---------------------------------------------------------------------------
(* a.nested_in(b) (NestedIn::go, InputRef::with_input), g = <<"nested", a, b>>:                  *)
(*   pc 1  b in Emit mode yields the inner input (a flat range VIn(lo, hi))                        *)
(*   pc 2  the outer alt is taken away; a.then_ignore(end()) runs on the inner input with FRESH    *)
(*         errors (no alt, no secondary errors) and a fresh memo table, but the same state/context *)
(*   exit  the inner secondary errors are appended to the outer list, re-located at the outer      *)
(*         cursor (their spans stay inner spans); the inner alt, if any, is merged into the        *)
(*         restored outer alt at the outer cursor -- also when the inner parse succeeded.  The     *)
(*         outer cursor stays after b whatever the inner outcome (callers rewind as for any        *)
(*         failure).                                                                               *)
ANestedStart ==
  /\ Entering({"nested"})
  /\ LET f == Top IN Call([f EXCEPT !.pc = 1], 2, f.g[3], "E", cur, sec, insp, alt)

ANestedBRet ==
  /\ Resuming({"nested"}, 1)
  /\ LET f == Top
         f2 == [f EXCEPT !.pc = 2, !.salt = alt, !.sv = [sec |-> sec, memo |-> memo, cur |-> cur]]
     IN IF ~ret.ok THEN Keep(ErrRet)
        ELSE /\ cur' = ret.val[2] /\ sec' = <<>> /\ insp' = insp /\ alt' = NoAlt
             /\ memo' = <<>>
             /\ stack' = Append([stack EXCEPT ![Len(stack)] = f2],
                                Frame(<<"theni", f.g[2], <<"end">>>>, f.mode, f.ctx, f.env, Append(f.path, 1), "go", 0,
                                      ret.val[2], 0, insp, <<ret.val[2], ret.val[3]>>))
             /\ ret' = NoRet
             /\ Tick
             /\ UNCHANGED <<cid, kf, obs, result>>

ANestedARet ==
  /\ Resuming({"nested"}, 2)
  /\ LET f == Top
         oc == f.sv.cur
         moved == [i \in DOMAIN sec |-> [sec[i] EXCEPT !.pos = oc]]
     IN /\ RetX([ret EXCEPT !.fr = NoFrame], oc, f.sv.sec \o moved, insp,
                IF alt.some THEN AddAltErr(Ety, f.salt, oc, alt.err) ELSE f.salt)
        /\ memo' = f.sv.memo
        /\ UNCHANGED <<cid, kf, obs, result>>

---------------------------------------------------------------------------
(* Pratt parsing (src/pratt.rs, Pratt::pratt_go).  g = <<"pratt", atom, ops, table>>, ops a     *)
(* sequence of <<fix, bp, opg>> with fix in {"prefix", "postfix", "infixl", "infixr"} and opg   *)
(* the operator's own parser (any grammar: just(sym), a multi-token symbol, a choice of          *)
(* symbols, a parser that emits).  One frame per pratt_go invocation: n = min_power,             *)
(* cp = pre_expr, cp2 = pre_op, acc = <<lhs>> (<<lhs, op>> while an operand is parsed),          *)
(* k = index of the operator being tried.                                                        *)
(*   pc 10 prefix scan   11 prefix operator parser   1 prefix operand   2 atom                   *)
(*   20 postfix scan     22 postfix operator parser                                              *)
(*   21 infix scan       23 infix operator parser    3 infix operand                             *)
(* Operators are tried in declaration order; the operator parser runs in the caller's mode; an  *)
(* operator whose own parser or operand fails rewinds (prefix: to pre_expr, postfix / infix: to  *)
(* pre_op) -- which also discards what the operator parser emitted -- and the next one is tried. *)

PLeftPow(op) == IF op[1] = "infixr" THEN 2 * op[2] + 1 ELSE 2 * op[2]        \* Associativity::left_power
PRightPow(op) == IF op[1] = "infixr" THEN 2 * op[2] ELSE 2 * op[2] + 1       \* Associativity::right_power
POps(f) == f.g[3]
(* the fold callbacks also see the span of the sub-expression built so far (C07) *)
PFold(f, v, endc) == LET sp == SpanOf(f.cp.cur, endc) IN VW(v, sp[1], sp[2], f.ctx, insp)

PrattEntering == /\ ~st.done /\ stack # <<>> /\ ~ret.set /\ Op(Top.g) = "pratt"
PrattResuming(pc) == /\ ~st.done /\ stack # <<>> /\ ret.set /\ Op(Top.g) = "pratt" /\ Top.pc = pc
PrattCall(f2, minp, ncur, ninsp, nalt) ==      \* the operand: a recursive pratt_go on the same node
  /\ CallX(f2, f2.g, f2.mode, f2.ctx, f2.env, f2.path, "pratt", minp, ncur, sec, ninsp, nalt)
  /\ UNCHANGED <<cid, memo, kf, obs, result>>
PrattStay(f2, nalt) ==                          \* bookkeeping step inside the frame
  /\ stack' = [stack EXCEPT ![Len(stack)] = f2]
  /\ alt' = nalt /\ ret' = NoRet /\ Tick
  /\ UNCHANGED <<cid, cur, sec, insp, memo, kf, obs, result>>
(* stay in the frame, rewinding the input to checkpoint cp (InputRef::rewind) *)
PrattRewind(f2, cp) ==
  /\ stack' = [stack EXCEPT ![Len(stack)] = f2]
  /\ cur' = cp.cur /\ sec' = RwSec(cp) /\ insp' = cp.insp
  /\ ret' = NoRet /\ Tick
  /\ UNCHANGED <<cid, alt, memo, kf, obs, result>>
(* the k-th operator's own parser, as child 10 + k of the node *)
PrattOpCall(f2, k) == Call(f2, 10 + k, POps(f2)[k][3], f2.mode, cur, sec, insp, alt)

APrattStart ==
  /\ PrattEntering /\ Top.pc = 0
  /\ PrattStay([Top EXCEPT !.pc = 10, !.k = 1], alt)

APrattPrefixScan ==
  /\ PrattEntering /\ Top.pc = 10
  /\ LET f == Top
         k == f.k
     IN IF k > Len(POps(f))
        THEN Call([f EXCEPT !.pc = 2], 1, f.g[2], f.mode, cur, sec, insp, alt)               \* no prefix operator: the atom
        ELSE IF POps(f)[k][1] # "prefix" THEN PrattStay([f EXCEPT !.k = k + 1], alt)
        ELSE PrattOpCall([f EXCEPT !.pc = 11], k)

(* Prefix::do_parse_prefix: op_parser.go::<M>; Ok -> the operand with min power 2 * bp; Err -> rewind(pre_expr) *)
APrattPrefixOpRet ==
  /\ PrattResuming(11)
  /\ LET f == Top
         op == POps(f)[f.k]
     IN IF ret.ok
        THEN PrattCall([f EXCEPT !.pc = 1, !.acc = <<VU, ret.val>>], 2 * op[2], cur, insp, alt)
        ELSE PrattRewind([f EXCEPT !.pc = 10, !.k = f.k + 1], f.cp)

APrattPrefixRet ==
  /\ PrattResuming(1)
  /\ LET f == Top IN
     IF ret.ok
     THEN /\ stack' = [stack EXCEPT ![Len(stack)] =
                         [f EXCEPT !.pc = 20, !.k = 1, !.cp2 = Cp(cur, Len(sec), insp),
                                   !.acc = <<MV(f.mode, PFold(f, VF("pre", f.acc[2], ret.val), cur))>>]]
          /\ ret' = NoRet /\ Tick
          /\ UNCHANGED <<cid, cur, alt, sec, insp, memo, kf, obs, result>>
     ELSE \* the operand failed: rewind(pre_expr) and try the next operator
          PrattRewind([f EXCEPT !.pc = 10, !.k = f.k + 1], f.cp)

APrattAtomRet ==
  /\ PrattResuming(2)
  /\ LET f == Top IN
     IF ~ret.ok THEN Keep(ErrRet)
     ELSE /\ stack' = [stack EXCEPT ![Len(stack)] =
                         [f EXCEPT !.pc = 20, !.k = 1, !.cp2 = Cp(cur, Len(sec), insp), !.acc = <<ret.val>>]]
          /\ ret' = NoRet /\ Tick
          /\ UNCHANGED <<cid, cur, alt, sec, insp, memo, kf, obs, result>>

APrattPostfixScan ==
  /\ PrattEntering /\ Top.pc = 20
  /\ LET f == Top
         k == f.k
     IN IF k > Len(POps(f)) THEN PrattStay([f EXCEPT !.pc = 21, !.k = 1], alt)
        ELSE LET op == POps(f)[k] IN
             IF op[1] # "postfix" \/ 2 * op[2] + 1 < f.n THEN PrattStay([f EXCEPT !.k = k + 1], alt)
             ELSE PrattOpCall([f EXCEPT !.pc = 22], k)

(* Postfix::do_parse_postfix: Ok -> fold and go round the loop (a new pre_op); Err -> rewind(pre_op) *)
APrattPostfixOpRet ==
  /\ PrattResuming(22)
  /\ LET f == Top IN
     IF ret.ok
     THEN /\ stack' = [stack EXCEPT ![Len(stack)] =
                         [f EXCEPT !.pc = 20, !.k = 1, !.cp2 = Cp(cur, Len(sec), insp),
                                   !.acc = <<MV(f.mode, PFold(f, VF("post", f.acc[1], ret.val), cur))>>]]
          /\ ret' = NoRet /\ Tick
          /\ UNCHANGED <<cid, cur, alt, sec, insp, memo, kf, obs, result>>
     ELSE PrattRewind([f EXCEPT !.pc = 20, !.k = f.k + 1], f.cp2)

APrattInfixScan ==
  /\ PrattEntering /\ Top.pc = 21
  /\ LET f == Top
         k == f.k
     IN IF k > Len(POps(f))
        THEN \* nothing applies: rewind(pre_op) and return lhs
             Return(OkRet(f.acc[1]), f.cp2.cur, RwSec(f.cp2), f.cp2.insp, alt)
        ELSE LET op == POps(f)[k] IN
             IF op[1] \notin {"infixl", "infixr"} \/ PLeftPow(op) < f.n THEN PrattStay([f EXCEPT !.k = k + 1], alt)
             ELSE PrattOpCall([f EXCEPT !.pc = 23], k)

(* Infix::do_parse_infix: Ok -> the right operand with the operator's right power; Err -> rewind(pre_op) *)
APrattInfixOpRet ==
  /\ PrattResuming(23)
  /\ LET f == Top
         op == POps(f)[f.k]
     IN IF ret.ok
        THEN PrattCall([f EXCEPT !.pc = 3, !.acc = <<f.acc[1], ret.val>>], PRightPow(op), cur, insp, alt)
        ELSE PrattRewind([f EXCEPT !.pc = 21, !.k = f.k + 1], f.cp2)

APrattInfixRet ==
  /\ PrattResuming(3)
  /\ LET f == Top IN
     IF ret.ok
     THEN /\ stack' = [stack EXCEPT ![Len(stack)] =
                         [f EXCEPT !.pc = 20, !.k = 1, !.cp2 = Cp(cur, Len(sec), insp),
                                   !.acc = <<MV(f.mode, PFold(f, VF("in", VP(f.acc[1], f.acc[2]), ret.val), cur))>>]]
          /\ ret' = NoRet /\ Tick
          /\ UNCHANGED <<cid, cur, alt, sec, insp, memo, kf, obs, result>>
     ELSE \* no right operand: rewind(pre_op), the operator stays unconsumed; try the next one
          PrattRewind([f EXCEPT !.pc = 21, !.k = f.k + 1, !.acc = <<f.acc[1]>>], f.cp2)

---------------------------------------------------------------------------
(* Top level: Parser::parse / Parser::check (src/lib.rs:356-427)           *)

Finish ==
  /\ ~st.done /\ stack = <<>> /\ ret.set
  /\ LET sp == SpanOf(cur, cur)
         primary == IF alt.some THEN alt.err ELSE Norm(Ety, MkErr(sp[1], sp[2], "", {}, "", <<>>))
         errs == [i \in DOMAIN sec |-> sec[i].err]
     IN result' = [ok |-> ret.ok,
                   out |-> IF ret.ok THEN ret.val ELSE VU,
                   errs |-> IF ret.ok THEN errs ELSE Append(errs, primary),
                   panic |-> FALSE, leaked |-> st.leaked,
                   insp |-> insp]
  /\ st' = [st EXCEPT !.done = TRUE]
  /\ UNCHANGED <<cid, stack, ret, cur, alt, sec, insp, memo, kf, obs>>

NoResult == [ok |-> FALSE, out |-> VU, errs |-> <<>>, panic |-> FALSE, insp |-> 0, leaked |-> 0]

(* C13: the next parse of a history.  Parser::parse creates a fresh owner of all per-parse state  *)
(* (cursor, pending and secondary errors, memo table, inspector state given by the caller) and   *)
(* runs the same, immutable, parser value on it: nothing of the finished parse is visible.        *)
MoreRuns == IF "more" \in DOMAIN Case THEN Len(Case.more) ELSE 0
ANextParse ==
  /\ st.done /\ ~st.panicked /\ st.run < MoreRuns
  /\ stack' = << Frame(<<"theni", G, <<"end">>>>, TopMode, VU, <<>>, <<>>, "go", 0, 0, 0, 0,
                       <<0, Len(Case.more[st.run + 1])>>) >>
  /\ ret' = NoRet
  /\ cur' = 0 /\ alt' = NoAlt /\ sec' = <<>> /\ insp' = 0
  /\ memo' = <<>>
  /\ st' = [done |-> FALSE, panicked |-> FALSE, steps |-> 0, leaked |-> 0, run |-> st.run + 1, past |-> Append(st.past, result), alias |-> st.alias]
  /\ obs' = <<>>
  /\ result' = NoResult
  /\ UNCHANGED <<cid, kf>>


Init ==
  /\ cid \in 1..Len(Cases)
  /\ stack = << Frame(<<"theni", Cases[cid].g, <<"end">>>>, Cases[cid].mode, VU, <<>>, <<>>, "go", 0, 0, 0, 0,
                       <<0, Len(Cases[cid].inp)>>) >>
  /\ ret = NoRet
  /\ cur = 0 /\ alt = NoAlt /\ sec = <<>> /\ insp = 0
  /\ memo = <<>>
  /\ kf \in (IF "mapped_span" \in KFSites /\ Cases[cid].kind \in GappedKinds
             THEN {<<>>, "mapped_span" :> "on"}
             ELSE IF "memo_alias" \in KFSites /\ Cases[cid].kind \in StaticKinds /\ Cardinality(MemoSub(Cases[cid].g)) >= 2
             THEN {<<>>, "memo_alias" :> "on"} ELSE {<<>>})
  /\ st \in {[done |-> FALSE, panicked |-> FALSE, steps |-> 0, leaked |-> 0, run |-> 0, past |-> <<>>, alias |-> a] :
              a \in (IF "memo_alias" \in DOMAIN kf
                     THEN LET M == MemoSub(Cases[cid].g) IN {h \in [M -> M] : (\A x \in M : h[h[x]] = h[x]) /\ (\E x \in M : h[x] # x)}
                     ELSE {<<>>})}
  /\ obs = <<>>
  /\ result = NoResult

CoreNext ==
  \/ ALeaf \/ AProbe
  \/ ASeqStart \/ ASeqStep
  \/ AChoiceStart \/ AChoiceAltOk \/ AChoiceAltFail
  \/ AUnaryStart \/ AOrNotRet \/ ARewindRet \/ AAndIsARet \/ AAndIsBRet \/ ANotStart \/ ANotRet
  \/ AMapRet \/ AFilterRet \/ ATryMapWRet \/ ATryMapStart \/ ATryMapInnerFail \/ ATryMapRet \/ AValidateRet
  \/ ARepNext \/ ARepNextRet \/ ACfgRepNext \/ ACfgRepNextRet \/ AEnumNext \/ AEnumNextRet
  \/ ASepNext \/ ASepLeadRet \/ ASepSepRet \/ ASepItemRet \/ AIntoIterNext \/ AIntoIterRet \/ ARunIntoIterRet
  \/ AConsumerStart \/ ARunFastRet \/ ACollectRet \/ AExactRet
  \/ AFoldlStart \/ AFoldlARet \/ AFoldlItRet \/ AFoldrItRet \/ AFoldrBRet
  \/ ARecoverStart \/ ARecoverARet \/ ARecoverViaRet \/ ASkipUntilUntilRet \/ ASkipUntilSkipRet
  \/ ARetryUntilRet \/ ARetrySkipRet \/ ARetryRetryRet
  \/ ALabelStart \/ ALabelRet \/ AMapErrRet
  \/ AMemoStart \/ AMemoRet \/ ARecStart \/ ARefStart \/ ALetStart \/ AVarStart \/ APassRet
  \/ ANestedStart \/ ANestedBRet \/ ANestedARet
  \/ ATextStart \/ ATPaddedStart \/ ATPaddedRet \/ AExtSubStart \/ AExtSubRet \/ AProgStep \/ AProgSubRet
  \/ AWithCtxStart \/ AThenCtxStart \/ AThenCtxARet \/ AThenCtxBRet \/ AWithStateStart \/ AWithStateRet
  \/ APrattStart \/ APrattPrefixScan \/ APrattPrefixOpRet \/ APrattPrefixRet \/ APrattAtomRet
  \/ APrattPostfixScan \/ APrattPostfixOpRet \/ APrattInfixScan \/ APrattInfixOpRet \/ APrattInfixRet
  \/ Finish \/ ANextParse
=============================================================================
