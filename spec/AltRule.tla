------------------------------ MODULE AltRule ------------------------------
(***************************************************************************)
(* C06, unbounded: the pending-primary-error rule of InputRef::add_alt /   *)
(* add_alt_err (src/input.rs) and the shelter protocol of the combinators  *)
(* that set the pending error aside while their child runs (try_map,       *)
(* labelled, map_err, not: take the alt, run the child on an empty alt,    *)
(* merge the child's alt back over the sheltered one).                     *)
(*                                                                         *)
(* State: the pending error (some, pos, exp), a sheltered one (sh, shSome, *)
(* shPos, shExp), and two ghost sets of every failure event <<position,    *)
(* expectation>> reported before (out) and since (inn) the shelter began.  *)
(*                                                                         *)
(* IndInv is an INDUCTIVE invariant -- it holds initially and every action *)
(* preserves it -- so it holds after any number of failure events, not     *)
(* only within a bounded behaviour: the pending error is at the furthest   *)
(* position reported so far and its expectations are exactly those of the  *)
(* events at that position.  Checked by Apalache (Init => IndInv at length *)
(* 0; IndInv /\ Next => IndInv' at length 1), positions 0..MaxPos.         *)
(***************************************************************************)
EXTENDS Integers, FiniteSets

CONSTANTS
  \* @type: Int;
  MaxPos

Labels == {"a", "b", "c", "any"}
Positions == 0..6

VARIABLES
  \* @type: Bool;
  some,
  \* @type: Int;
  pos,
  \* @type: Set(Str);
  exp,
  \* @type: Bool;
  sh,
  \* @type: Bool;
  shSome,
  \* @type: Int;
  shPos,
  \* @type: Set(Str);
  shExp,
  \* @type: Set(<<Int, Str>>);
  out,
  \* @type: Set(<<Int, Str>>);
  inn

ConstInit == MaxPos = 6

Init ==
  /\ some = FALSE /\ pos = 0 /\ exp = {}
  /\ sh = FALSE /\ shSome = FALSE /\ shPos = 0 /\ shExp = {}
  /\ out = {} /\ inn = {}

(* InputRef::add_alt at cursor `at` with expectation e *)
AddAlt(at, e) ==
  /\ IF ~some THEN some' = TRUE /\ pos' = at /\ exp' = {e}
     ELSE IF pos = at THEN some' = some /\ pos' = pos /\ exp' = exp \union {e}
     ELSE IF pos > at THEN some' = some /\ pos' = pos /\ exp' = exp
     ELSE some' = some /\ pos' = at /\ exp' = {e}
  /\ IF sh THEN inn' = inn \union {<<at, e>>} /\ out' = out
     ELSE out' = out \union {<<at, e>>} /\ inn' = inn
  /\ UNCHANGED <<sh, shSome, shPos, shExp>>

(* a sheltering combinator starts: the pending error is set aside *)
Shelter ==
  /\ ~sh
  /\ sh' = TRUE /\ shSome' = some /\ shPos' = pos /\ shExp' = exp
  /\ some' = FALSE /\ pos' = 0 /\ exp' = {}
  /\ UNCHANGED <<out, inn>>

(* ... and ends: add_alt_err(child's alt) over the sheltered one *)
Unshelter ==
  /\ sh
  /\ sh' = FALSE /\ shSome' = FALSE /\ shPos' = 0 /\ shExp' = {}
  /\ IF ~some THEN some' = shSome /\ pos' = shPos /\ exp' = shExp
     ELSE IF ~shSome THEN some' = some /\ pos' = pos /\ exp' = exp
     ELSE IF shPos = pos THEN some' = TRUE /\ pos' = pos /\ exp' = shExp \union exp
     ELSE IF shPos > pos THEN some' = TRUE /\ pos' = shPos /\ exp' = shExp
     ELSE some' = TRUE /\ pos' = pos /\ exp' = exp
  /\ out' = out \union inn /\ inn' = {}

Next ==
  \/ \E at \in Positions, e \in Labels : AddAlt(at, e)
  \/ Shelter
  \/ Unshelter

(* "furthest failure with merged expectations" of a set of events *)
\* @type: (Bool, Int, Set(Str), Set(<<Int, Str>>)) => Bool;
Furthest(s, p, x, evs) ==
  /\ s = (evs # {})
  /\ s => /\ \A ev \in evs : ev[1] <= p
          /\ \E ev \in evs : ev[1] = p
          /\ x = {ev[2] : ev \in {w \in evs : w[1] = p}}
  /\ ~s => (p = 0 /\ x = {})

TypeOK ==
  /\ pos \in Positions /\ shPos \in Positions
  /\ exp \subseteq Labels /\ shExp \subseteq Labels
  /\ out \subseteq (Positions \X Labels) /\ inn \subseteq (Positions \X Labels)

IndInv ==
  /\ TypeOK
  /\ IF sh
     THEN Furthest(shSome, shPos, shExp, out) /\ Furthest(some, pos, exp, inn)
     ELSE Furthest(some, pos, exp, out) /\ inn = {} /\ ~shSome /\ shPos = 0 /\ shExp = {}

(* an arbitrary state satisfying the invariant: the starting point of the induction step *)
IndInit ==
  /\ some \in BOOLEAN /\ pos \in Positions /\ exp \in SUBSET Labels
  /\ sh \in BOOLEAN /\ shSome \in BOOLEAN /\ shPos \in Positions /\ shExp \in SUBSET Labels
  /\ out \in SUBSET (Positions \X Labels) /\ inn \in SUBSET (Positions \X Labels)
  /\ IndInv
=============================================================================
