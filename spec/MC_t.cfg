SPECIFICATION MCSpec
CONSTANTS
  Cases <- MCCases
  KFSites = {"filter_found", "trymap_override", "mapped_span"}
  Fam = "spng"
  MaxSize = 3
  Alphabet = {"a", "b"}
  MaxLen = 3
  Kinds = {"mapped", "mstream"}
  Etys = {"rich"}
  Modes = {"E"}
  Chunk = 0
  NChunks = 1
INVARIANTS Replay RetRefines InspConsistent CursorInBounds ResultContract FurthestFailure NoPanic StepBound SpansWellFormed
CHECK_DEADLOCK FALSE
ALIAS Brief
