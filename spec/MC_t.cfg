SPECIFICATION MCSpec
CONSTANTS
  Cases <- MCCases
  KFSites = {"filter_found", "trymap_override", "maperr_drop"}
  Fam = "lrec"
  MaxSize = 1
  Alphabet = {"a", "+"}
  MaxLen = 5
  Kinds = {"str"}
  Etys = {"rich"}
  Modes = {"E", "C"}
  Chunk = 0
  NChunks = 1
INVARIANTS Replay InspConsistent CursorInBounds NoPanic StepBound
CHECK_DEADLOCK FALSE
ALIAS Brief
