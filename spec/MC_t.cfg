SPECIFICATION MCSpec
CONSTANTS
  Cases <- MCCases
  KFSites = {"filter_found", "trymap_override", "mapped_span"}
  Fam = "pratt"
  MaxSize = 1
  Alphabet = {"a", "+", "*", "-", "!", "^"}
  MaxLen = 4
  Kinds = {"str"}
  Etys = {"rich"}
  Modes = {"E"}
  Chunk = 0
  NChunks = 1
INVARIANTS Replay RetRefines InspConsistent CursorInBounds ResultContract FurthestFailure NoPanic StepBound SpansWellFormed
CHECK_DEADLOCK FALSE
ALIAS Brief
