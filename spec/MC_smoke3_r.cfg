SPECIFICATION MCSpec
CONSTANTS
  Cases <- MCCases
  KFSites = {"rewind_trunc", "andis_trunc", "trymap_shelter", "trymap_rehome", "trymap_override", "filter_found"}
  Fam = "peg"
  MaxSize = 3
  Alphabet = {"a", "b"}
  MaxLen = 3
  Kinds = {"str"}
  Etys = {"rich"}
  Modes = {"E", "C"}
  Chunk = 0
  NChunks = 1
INVARIANTS Replay RetRefines InspConsistent CursorInBounds ResultContract FurthestFailure NoPanic StepBound
CHECK_DEADLOCK FALSE
ALIAS Brief
