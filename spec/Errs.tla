------------------------------- MODULE Errs -------------------------------
(***************************************************************************)
(* Error values and the pending-primary-error ("alt") rule, transcribed    *)
(* from InputRef::add_alt / add_alt_err (src/input.rs) and the Error /     *)
(* LabelError impls of EmptyErr, Cheap, Simple and Rich (src/error.rs).    *)
(*                                                                         *)
(* An error is a record [s, e, found, exp, cust, ctxs]:                    *)
(*   s..e   span (already in the input kind's own offsets)                 *)
(*   found  the found token, "" for None                                   *)
(*   exp    set of expected patterns: "t:<tok>", "any", "else", "eoi",     *)
(*          "l:<label>"                                                    *)
(*   cust   "" for RichReason::ExpectedFound, otherwise the custom message *)
(*   ctxs   sequence of <<label, s, e>> (Rich::contexts)                   *)
(* The error type ety \in {"rich","simple","cheap","empty"} decides which  *)
(* of these fields exist; Norm projects an error onto what the type keeps. *)
(***************************************************************************)
EXTENDS Ast

MkErr(s, e, found, exp, cust, ctxs) ==
  [s |-> s, e |-> e, found |-> found, exp |-> exp, cust |-> cust, ctxs |-> ctxs]

EmptyE == MkErr(0, 0, "", {}, "", <<>>)

Norm(ety, er) ==
  CASE ety = "rich" -> er
    [] ety = "simple" -> MkErr(er.s, er.e, er.found, {}, "", <<>>)
    [] ety = "cheap" -> MkErr(er.s, er.e, "", {}, "", <<>>)
    [] ety = "empty" -> EmptyE

(* a user-made error (try_map, custom, validate): Rich::custom(span, msg), *)
(* Simple::new(None, span), Cheap::new(span), EmptyErr                      *)
UserErr(ety, s, e, msg) == Norm(ety, MkErr(s, e, "", {}, msg, <<>>))

NoAlt == [some |-> FALSE, pos |-> 0, err |-> EmptyE]
SomeAlt(pos, er) == [some |-> TRUE, pos |-> pos, err |-> er]

(* Rich::merge_expected_found *)
MergeEF(ety, old, exp, found) ==
  IF ety # "rich" THEN old
  ELSE IF old.cust # "" THEN old
  ELSE [old EXCEPT !.exp = @ \cup exp, !.found = IF @ # "" THEN @ ELSE found]

(* Error::merge  (Rich: RichReason::flat_merge, span and context of self) *)
MergeErr(ety, old, new) ==
  IF ety # "rich" THEN old
  ELSE IF old.cust # "" THEN old
  ELSE IF new.cust # "" THEN [old EXCEPT !.cust = new.cust, !.exp = {}, !.found = ""]
  ELSE [old EXCEPT !.exp = @ \cup new.exp]

(* InputRef::add_alt(expected, found, span) with the cursor at `at` *)
AddAlt(ety, a, at, exp, found, s, e) ==
  LET new == Norm(ety, MkErr(s, e, found, exp, "", <<>>)) IN
  IF ety = "empty" THEN SomeAlt(at, EmptyE)                 \* zero-sized fast path: always overwrite
  ELSE IF ~a.some THEN SomeAlt(at, new)
  ELSE IF a.pos = at THEN [a EXCEPT !.err = MergeEF(ety, a.err, exp, found)]
  ELSE IF a.pos > at THEN a
  ELSE SomeAlt(at, new)                                     \* replace_expected_found == a fresh error

(* InputRef::add_alt_err(at, err) *)
AddAltErr(ety, a, at, er) ==
  IF ety = "empty" THEN SomeAlt(at, EmptyE)                 \* zero-sized fast path: record, nothing to prioritise
  ELSE IF ~a.some THEN SomeAlt(at, Norm(ety, er))
  ELSE IF a.pos = at THEN [a EXCEPT !.err = MergeErr(ety, a.err, Norm(ety, er))]
  ELSE IF a.pos > at THEN a
  ELSE SomeAlt(at, Norm(ety, er))

(* LabelError::label_with / in_context (only Rich implements them) *)
LabelWith(ety, er, l) ==
  IF ety # "rich" THEN er
  ELSE IF er.cust = "" THEN [er EXCEPT !.exp = {l}]
  ELSE [er EXCEPT !.cust = "", !.exp = {l}, !.found = ""]

InContext(ety, er, l, s, e) ==
  IF ety # "rich" THEN er
  ELSE IF \E i \in DOMAIN er.ctxs : er.ctxs[i][1] = l THEN er
  ELSE [er EXCEPT !.ctxs = Append(@, <<l, s, e>>)]

(* shared map_err vocabulary: "id" keeps the error, "tag" replaces it by a *)
(* user error with the same span (span-preserving, as C17 requires)        *)
MapErrFn(ety, f, er) ==
  CASE f = "id" -> er
    [] f = "tag" -> UserErr(ety, er.s, er.e, "me")
=============================================================================
