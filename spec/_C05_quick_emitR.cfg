SPECIFICATION MCSpec
CONSTANTS
  Cases <- TraceCases
  Rec <- RecFromFile
  KFSites = {"andis_trunc", "filter_found", "rewind_trunc", "trymap_override", "trymap_rehome", "trymap_shelter"}
  Fam = "emit"
  MaxSize = 1
  Alphabet = {"a", "b"}
  MaxLen = 0
  Kinds = {"str"}
  Etys = {"rich"}
  Modes = {"E", "C"}
  Chunk = 0
  NChunks = 1
INVARIANTS Verdict RetRefines InspConsistent CursorInBounds ResultContract FurthestFailure NoPanic StepBound
CHECK_DEADLOCK FALSE
ALIAS Brief
