------------------------------- MODULE Inputs -------------------------------
(***************************************************************************)
(* C10: the input kinds that keep state behind the Input interface.        *)
(*                                                                         *)
(* A parser sees an input through `next(cache, &mut cursor)`; backtracking *)
(* means calling it again with a cursor handed out earlier.  Slices answer *)
(* from memory; two kinds answer from a mutable cache:                     *)
(*                                                                         *)
(*  Stream (src/stream.rs)   cache = (tokens: Vec, iter).  next(c): if the *)
(*     vector is not longer than c, extend it by up to Batch items pulled  *)
(*     from the iterator; answer tokens[c], advancing the cursor.          *)
(*  IoInput (src/input.rs)   cache = (BufReader, last_cursor).  next(c):   *)
(*     if c # last_cursor, seek_relative(c - last_cursor) and remember c;  *)
(*     read one byte; on success advance both last_cursor and the cursor.  *)
(*                                                                         *)
(* The environment is the parser: any sequence of runs "from a cursor that *)
(* was handed out before, call next k times".  The property (C10): every   *)
(* call answers the token at its cursor -- as a slice would --, a Stream   *)
(* pulls every item of its iterator at most once and in order however the  *)
(* cursor jumps, and an IoInput's reader is always where last_cursor says. *)
(*                                                                         *)
(* The source is the sequence 1..N (token i is the number i).  Finished    *)
(* call sequences are printed (INPUTS ...) and replayed on the real        *)
(* Stream / boxed Stream / IoInput by a custom parser that rewinds to the  *)
(* checkpoint of the requested cursor and calls next() (public API only).  *)
(***************************************************************************)
EXTENDS Naturals, Sequences, FiniteSets, TLC, Json

CONSTANTS UseCF,      \* TRUE: runs are computed in closed form (long runs); FALSE: call by call
          N,          \* length of the source
          Batch,      \* Stream pulls up to this many items at a time (512 in src/stream.rs)
          Runs,       \* the run lengths the environment may use
          MaxOps      \* number of runs per behaviour

VARIABLES vec,        \* Stream: the tokens pulled so far (source indices)
          it,         \* Stream: how many items the iterator has yielded
          rpos,       \* IoInput: position of the reader in the source
          last,       \* IoInput: last_cursor
          known,      \* cursors handed out so far (0 = begin())
          hist        \* the runs so far: [from, k, got, end, pulled]

vars == <<vec, it, rpos, last, known, hist>>

Min(a, b) == IF a <= b THEN a ELSE b

(* one Stream::next(c): <<new vec, new it, answer (0 = None)>> *)
StreamNext(v, i, c) ==
  LET n == IF Len(v) <= c THEN Min(Batch, N - i) ELSE 0          \* (&mut iter).take(Batch)
      v2 == v \o [j \in 1..n |-> i + j]
  IN <<v2, i + n, IF c < Len(v2) THEN v2[c + 1] ELSE 0>>

(* one IoInput::next(c): <<new reader position, new last_cursor, answer (0 = None)>> *)
IoNext(r, l, c) ==
  LET r1 == IF c # l THEN r + c - l ELSE r                         \* seek_relative(c - last_cursor)
      l1 == c
  IN IF r1 < N THEN <<r1 + 1, l1 + 1, r1 + 1>> ELSE <<r1, l1, 0>>  \* read_exact of one byte

(* k calls starting at cursor c: the cursor advances only on Some *)
RECURSIVE StreamRun(_, _, _, _, _)
StreamRun(v, i, c, k, got) ==
  IF k = 0 THEN <<v, i, c, got>>
  ELSE LET r == StreamNext(v, i, c) IN
       IF r[3] = 0 THEN StreamRun(r[1], r[2], c, k - 1, got)
       ELSE StreamRun(r[1], r[2], c + 1, k - 1, Append(got, r[3]))
RECURSIVE IoRun(_, _, _, _, _)
IoRun(r, l, c, k, got) ==
  IF k = 0 THEN <<r, l, c, got>>
  ELSE LET x == IoNext(r, l, c) IN
       IF x[3] = 0 THEN IoRun(x[1], x[2], c, k - 1, got)
       ELSE IoRun(x[1], x[2], c + 1, k - 1, Append(got, x[3]))

(* The same runs in closed form (for runs of hundreds of calls): the cursors asked are c .. c+n-1, and c+n once more   *)
(* when the source ends first; the vector grows by whole batches until it covers the highest cursor asked.  CFAgrees   *)
(* (checked in the small configuration) says this is what the call-by-call definition computes.                         *)
StreamRunCF(v, i, c, k) ==
  LET n == Min(k, N - c)
      top == IF n < k THEN c + n ELSE c + n - 1
      need == top + 1 - Len(v)
      pulls == IF k = 0 \/ need <= 0 THEN 0 ELSE Min(N - i, Batch * ((need + Batch - 1) \div Batch))
      v2 == v \o [j \in 1..pulls |-> i + j]
  IN <<v2, i + pulls, c + n, SubSeq(v2, c + 1, c + n)>>
IoRunCF(r, l, c, k) ==
  LET n == Min(k, N - c)
      r1 == IF k > 0 /\ c # l THEN r + c - l ELSE r
  IN <<r1 + n, (IF k > 0 THEN c ELSE l) + n, c + n, [j \in 1..n |-> r1 + j]>>
SRun(v, i, c, k) == IF UseCF THEN StreamRunCF(v, i, c, k) ELSE StreamRun(v, i, c, k, <<>>)
ORun(r, l, c, k) == IF UseCF THEN IoRunCF(r, l, c, k) ELSE IoRun(r, l, c, k, <<>>)

Init == /\ vec = <<>> /\ it = 0 /\ rpos = 0 /\ last = 0 /\ known = {0} /\ hist = <<>>

Run(c, k) ==
  /\ Len(hist) < MaxOps
  /\ c \in known
  /\ LET s == SRun(vec, it, c, k)
         o == ORun(rpos, last, c, k)
     IN /\ vec' = s[1] /\ it' = s[2]
        /\ rpos' = o[1] /\ last' = o[2]
        \* (every cursor passed on the way was handed out too; the environment restarts from the ends of runs only,
        \* which keeps the branching small without losing any pattern of jumps over the batch boundaries)
        /\ known' = known \cup {s[3]}
        \* the two kinds answer alike (checked below); the history keeps the Stream's answers and pull count
        /\ hist' = Append(hist, [from |-> c, k |-> k, n |-> Len(s[4]), first |-> IF s[4] = <<>> THEN 0 ELSE s[4][1],
                                 end |-> s[3], pulled |-> s[2], ioend |-> o[3], ion |-> Len(o[4]),
                                 \* <Stream as ExactSizeInput>::span_from(end..): cursor .. tokens.len() + iter.len()
                                 sfrom |-> s[3], sto |-> Len(s[1]) + (N - s[2]),
                                 iofirst |-> IF o[4] = <<>> THEN 0 ELSE o[4][1]])

Next == \E c \in known, k \in Runs : Run(c, k)
Spec == Init /\ [][Next]_vars

---------------------------------------------------------------------------
(* the cache is a prefix of the source: every item pulled exactly once, in order *)
PulledOnceInOrder == /\ Len(vec) = it /\ it <= N
                     /\ \A j \in DOMAIN vec : vec[j] = j
(* the iterator is never asked for more than is needed: at most one batch beyond the furthest cursor asked *)
NoEagerPull == it <= (CHOOSE m \in known : \A x \in known : x <= m) + Batch
(* IoInput: the reader stands where last_cursor says *)
ReaderInSync == rpos = last
(* every run answered the tokens at its cursors, on both kinds: what a slice answers *)
AnswersRight ==
  \A i \in DOMAIN hist :
    LET h == hist[i] IN
    /\ h.n = Min(h.k, N - h.from) /\ h.end = h.from + h.n /\ (h.n > 0 => h.first = h.from + 1)
    /\ h.ion = h.n /\ h.ioend = h.end /\ h.iofirst = h.first
    /\ h.sfrom = h.end /\ h.sto = N          \* the span to the end of the input does not depend on what is cached
CFAgrees == \A c \in known, k \in Runs : /\ StreamRun(vec, it, c, k, <<>>) = StreamRunCF(vec, it, c, k)
                                           /\ IoRun(rpos, last, c, k, <<>>) = IoRunCF(rpos, last, c, k)
Replay == (Len(hist) = MaxOps) => PrintT("INPUTS " \o ToJson([n |-> N, batch |-> Batch, hist |-> hist]))
=============================================================================
