--------------------------------- MODULE MC ---------------------------------
(***************************************************************************)
(* Model-checking harness: bounded grammar families x inputs, the property *)
(* invariants (VM against the reference semantics of Peg.tla), and the     *)
(* REPLAY output that binds every explored behaviour to the real crate.    *)
(***************************************************************************)
EXTENDS ChumskyVM, Peg, Json, RecData, Stat

CONSTANTS Fam,        \* name of the grammar family
          MaxSize,    \* grammars of at most this many nodes
          Alphabet,   \* input tokens
          MaxLen,     \* inputs of at most this length
          Kinds, Etys, Modes,
          Chunk, NChunks,  \* Init is restricted to cases with index % NChunks = Chunk
          HistLen          \* C13: every case is followed by this many further parses through the same parser value

---------------------------------------------------------------------------
(* inputs *)
RECURSIVE Strs(_)
Strs(n) == IF n = 0 THEN {<<>>} ELSE LET S == Strs(n - 1) IN S \cup {Append(s, t) : s \in {x \in S : Len(x) = n - 1}, t \in Alphabet}
(* token trees: only balanced bracket sequences are inputs *)
RECURSIVE BalFrom(_, _)
BalFrom(s, d) == IF s = <<>> THEN d = 0
                 ELSE IF Head(s) = "(" THEN BalFrom(Tail(s), d + 1)
                 ELSE IF Head(s) = ")" THEN d > 0 /\ BalFrom(Tail(s), d - 1)
                 ELSE BalFrom(Tail(s), d)
Inputs == IF Kinds \cap {"tree", "treem"} # {} THEN {s \in Strs(MaxLen) : BalFrom(s, 0)} ELSE Strs(MaxLen)

(* "E" stands for a two-byte character (the harness maps it to U+00E9),   *)
(* "W" for a four-byte one                                                *)
(* "G" = e + combining acute (3 bytes), "U" = a flag of two regional indicators (8 bytes): one grapheme cluster each *)
Width(kind, t) == IF kind \in {"str", "graph", "static", "staticc"}
                  THEN (CASE t \in {"E", "Z", "H", "M"} -> 2 [] t = "W" -> 4 [] t = "X" -> 2 [] t \in {"L", "P", "G", "I", "K"} -> 3 [] t = "U" -> (IF kind = "graph" THEN 8 ELSE 3)
                        [] t = "D" -> (IF kind = "graph" THEN 2 ELSE 3) [] OTHER -> 1) ELSE 1
RECURSIVE OffsFrom(_, _, _)
OffsFrom(kind, s, o) == IF s = <<>> THEN <<o>> ELSE <<o>> \o OffsFrom(kind, Tail(s), o + Width(kind, Head(s)))
Offs(kind, s) == OffsFrom(kind, s, 0)

---------------------------------------------------------------------------
(* grammar families, enumerated by node count *)
Un(S, tags) == {<<t, a>> : t \in tags, a \in S}
UnP(S, tag, ps) == {<<tag, a, p>> : a \in S, p \in ps}
Bin(S1, S2, tags) == {<<t, a, b>> : t \in tags, a \in S1, b \in S2}

J(t) == <<"just", <<t>>>>
JJ(s, t) == <<"just", <<s, t>>>>

Bounds == {<<0, Inf>>, <<1, Inf>>, <<0, 1>>, <<1, 2>>, <<2, 2>>, <<0, 0>>}
Reps(S, bs) == {<<"rep", a, b[1], b[2]>> : a \in {x \in S : ~CanEmpty(x)}, b \in bs}

(* recovery strategies over leaf parsers *)
Strats == {<<"via", J("a")>>, <<"via", <<"any">>>>, <<"via", <<"to", J("b"), "k">>>>,
           <<"skipuntil", <<"any">>, J("b")>>, <<"skipuntil", <<"any">>, <<"end">>>>, <<"skipuntil", J("a"), J("b")>>,
           <<"retry", <<"any">>, J("b")>>, <<"retry", <<"any">>, <<"end">>>>, <<"retry", J("a"), <<"end">>>>,
           \* terminators / skip steps that consume before they fail: every probe has to be undone
           <<"retry", <<"any">>, JJ("a", "b")>>, <<"skipuntil", JJ("b", "a"), JJ("a", "b")>>}

(* C16: parsers that yield an inner input (the `b` of a.nested_in(b)) *)
TreeLeaf == <<"tree">>
NestB == {TreeLeaf, <<"ithen", J("a"), TreeLeaf>>, <<"theni", TreeLeaf, J("b")>>,
          <<"or", <<"ithen", J("a"), TreeLeaf>>, TreeLeaf>>}
(* the unary / binary layer of each family *)
UnLayer(fam, S) ==
  CASE fam = "peg" ->
         Un(S, {"ornot", "not", "rewind", "ignored", "mw"}) \cup UnP(S, "map", {"f"}) \cup UnP(S, "to", {"k"})
         \cup UnP(S, "filter", {"nfa"}) \cup UnP(S, "trymap", {"nfa"})
         \cup {<<"collect", r, "vec">> : r \in Reps(S, {<<0, Inf>>, <<1, Inf>>})}
    [] fam = "emit" ->
         \* few operators, emitting leaves: the interesting shapes (an emitter followed by a failure
         \* inside a repetition / option / lookahead) are reached at size 4
         Un(S, {"ornot", "not", "rewind"})
         \cup {<<"collect", r, "vec">> : r \in Reps(S, {<<0, Inf>>})}
         \cup {<<"run", r>> : r \in Reps(S, {<<0, Inf>>})}
    [] fam = "err" ->
         Un(S, {"ornot", "rewind"}) \cup UnP(S, "filter", {"nfa"}) \cup UnP(S, "trymap", {"nfa", "T"})
         \cup UnP(S, "trymapw", {"nfa"})
         \cup {<<"collect", r, "vec">> : r \in Reps(S, {<<0, Inf>>, <<1, Inf>>})}
    [] fam = "rcv" ->
         Un(S, {"ornot"}) \cup {<<"collect", r, "vec">> : r \in Reps(S, {<<0, Inf>>, <<1, 2>>})}
         \cup {<<"validate", a, "1", "nfa">> : a \in S}
         \cup {<<"recover", a, sg>> : a \in S, sg \in Strats}
    [] fam = "lbl" ->
         Un(S, {"ornot"}) \cup {<<"label", a, "L", c>> : a \in S, c \in BOOLEAN}
         \cup UnP(S, "maperr", {"tag", "id"})
         \cup {<<"validate", a, "1", "nfa">> : a \in S}
         \cup {<<"collect", r, "vec">> : r \in Reps(S, {<<0, Inf>>})}
    [] fam = "memo" ->
         Un(S, {"ornot", "memo", "rewind"}) \cup UnP(S, "trymap", {"nfa"}) \cup UnP(S, "map", {"f"})
         \cup {<<"collect", r, "vec">> : r \in Reps(S, {<<0, Inf>>, <<1, Inf>>})}
    [] fam = "ctx" ->
         Un(S, {"ornot", "mw"}) \cup {<<"withctx", c, a>> : c \in {VT("a"), VS(<<"a", "b">>), VI(2), VI(3)}, a \in S}
         \cup {<<"mapctx", "f", a>> : a \in S} \cup UnP(S, "map", {"num"})
         \cup {<<"collect", r, "vec">> : r \in Reps(S, {<<0, Inf>>})}
         \cup {<<"collect", <<cf, <<"rep", a, 0, Inf>>>>, "vec">> : cf \in {"cfgrep", "cfgrepmin", "cfgrepmax", "cfgreptry"}, a \in {x \in S : ~CanEmpty(x)}}
         \cup {<<"run", <<"cfgrep", <<"rep", a, 0, Inf>>>>>> : a \in {x \in S : ~CanEmpty(x)}}
    [] fam \in {"spn", "spng", "spnr", "spni"} ->
         \* every node can be wrapped in a span / slice capture (to_slice only where the kind has slices)
         Un(S, IF fam = "spn" THEN {"tospan", "toslice", "mw", "ornot", "rewind"} ELSE {"tospan", "mw", "ornot", "rewind"})
         \cup {<<"collect", r, "vec">> : r \in Reps(S, {<<0, Inf>>})}
         \cup {<<"validate", a, "1", "F">> : a \in S} \cup UnP(S, "trymap", {"F"})
    [] fam = "drp" ->
         Un(S, {"ornot"}) \cup UnP(S, "map", {"f"})
         \cup {<<"collect", r, "vec">> : r \in Reps(S, {<<0, Inf>>})}
         \cup {<<"exact", r, n>> : r \in Reps(S, {<<0, Inf>>, <<0, 1>>}), n \in {2, 3}}
         \cup {<<"grouparr", <<a>>>> : a \in S} \cup {<<"recover", a, <<"via", <<"to", <<"any">>, "r">>>>>> : a \in S}
    \* C10: shapes that make the cursor jump back and forth over the input (rewinds to an earlier and then to a
    \* later saved position), which is what the caching / seeking input kinds have to get right
    [] fam = "seek" -> Un(S, {"ornot", "rewind", "tospan"})
    [] fam = "nst" ->
         Un(S, {"ornot"}) \cup {<<"nested", a, b>> : a \in S, b \in NestB}
         \cup {<<"collect", r, "vec">> : r \in Reps(S, {<<0, Inf>>})}
    [] fam = "rep" ->
         {<<"collect", r, k>> : r \in Reps(S, Bounds), k \in {"vec"}}
         \cup {<<"run", r>> : r \in Reps(S, Bounds)}
         \cup {<<"exact", r, 2>> : r \in Reps(S, {<<0, Inf>>, <<0, 1>>, <<1, 2>>})}
         \cup Un(S, {"ornot"})
BinLayer(fam, S1, S2) ==
  CASE fam = "peg" -> Bin(S1, S2, {"then", "ithen", "theni", "or", "andis"})
                      \cup {<<"choice", <<a, b>>>> : a \in S1, b \in S2} \cup {<<"choicev", <<a, b>>>> : a \in S1, b \in S2}
    [] fam = "emit" -> Bin(S1, S2, {"then", "or", "andis"})
    [] fam = "err" -> Bin(S1, S2, {"then", "or", "andis"}) \cup {<<"choicev", <<a, b>>>> : a \in S1, b \in S2}
    [] fam \in {"spn", "spng", "spnr", "spni"} ->
         Bin(S1, S2, {"then", "or"})
         \cup {<<"foldlw", a, <<"rep", b, 0, Inf>>, "g">> : a \in S1, b \in {x \in S2 : ~CanEmpty(x)}}
         \cup {<<"foldrw", <<"rep", a, 0, Inf>>, b, "g">> : a \in {x \in S1 : ~CanEmpty(x)}, b \in S2}
    [] fam = "rcv" -> Bin(S1, S2, {"then", "or"})
    [] fam = "lbl" -> Bin(S1, S2, {"then", "or"}) \cup {<<"choicev", <<a, b>>>> : a \in S1, b \in S2}
    [] fam = "memo" -> Bin(S1, S2, {"then", "or", "andis"})
    [] fam = "ctx" -> Bin(S1, S2, {"then", "or", "thenctx", "ignctx"})
    [] fam = "nst" -> Bin(S1, S2, {"then", "or"})
    [] fam = "seek" -> Bin(S1, S2, {"then", "andis", "or"})
    [] fam = "drp" -> Bin(S1, S2, {"then", "or"})
                      \cup {<<"grouparr", <<a, b>>>> : a \in S1, b \in S2} \cup {<<"group", <<a, b>>>> : a \in S1, b \in S2}
                      \cup {<<"foldl", a, <<"rep", b, 0, Inf>>, "g">> : a \in S1, b \in {x \in S2 : ~CanEmpty(x)}}
    [] fam = "rep" -> Bin(S1, S2, {"then", "or"})
                      \cup {<<"collect", <<"sep", a, b, lh[1], lh[2], l, t>>, "vec">> :
                              a \in {x \in S1 : ~CanEmpty(x)}, b \in S2, lh \in {<<0, Inf>>, <<1, 2>>, <<2, Inf>>, <<0, 0>>},
                              l \in BOOLEAN, t \in BOOLEAN}
LeavesOf(fam) ==
  CASE fam = "peg" -> {J("a"), J("b"), JJ("a", "b"), <<"any">>, <<"oneof", <<"a", "b">>>>, <<"noneof", <<"a">>>>,
                       <<"sel", <<"a">>>>, <<"end">>, <<"empty">>, <<"cust", 1, TRUE>>, <<"cust", 1, FALSE>>, <<"ext", 1, TRUE>>, <<"ext", 2, FALSE>>}
    [] fam = "emit" -> {J("a"), J("b"), <<"cust", 1, FALSE>>,
                        <<"validate", <<"any">>, "1", "F">>,        \* consumes a token and emits
                        <<"validate", <<"empty">>, "0", "F">>}      \* emits without consuming
    [] fam = "err" -> {J("a"), J("b"), JJ("a", "b"), <<"any">>, <<"end">>, <<"cust", 1, FALSE>>}
    [] fam = "rep" -> {J("a"), J("b"), J(","), JJ("a", "b"), <<"any">>}
    [] fam \in {"spn", "spng"} -> {J("a"), JJ("a", "b"), <<"any">>, <<"empty">>}
    \* what an IterInput can carry (it cannot hand out tokens by value: no any / one_of / select / not)
    [] fam = "spni" -> {J("a"), JJ("a", "b"), J("b"), <<"empty">>}
    \* the same with the by-reference primitives (inputs that can lend their tokens: slices, Input::map over a slice)
    [] fam = "spnr" -> {J("a"), <<"anyr">>, <<"selr", <<"a">>>>, <<"any">>, <<"empty">>}
    [] fam = "rcv" -> {J("a"), J("b"), JJ("a", "b"), <<"any">>}
    [] fam = "lbl" -> {J("a"), J("b"), JJ("a", "b"), <<"any">>, <<"end">>, <<"cust", 1, FALSE>>}
    [] fam = "memo" -> {J("a"), J("b"), JJ("a", "b"), <<"any">>, <<"cust", 1, FALSE>>}
    [] fam = "drp" -> {J("a"), <<"map", <<"any">>, "f">>, <<"to", J("b"), "k">>, <<"sel", <<"a">>>>}
    [] fam = "seek" -> {J("a"), JJ("a", "b"), <<"any">>}
    [] fam = "nst" -> {J("a"), J("b"), <<"any">>, <<"validate", <<"any">>, "1", "F">>, <<"cust", 1, FALSE>>}
    [] fam = "ctx" -> {J("a"), JJ("a", "b"), <<"any">>, <<"cfgjust">>, <<"cfgjustr">>, <<"mw", <<"any">>>>}

RECURSIVE GSz(_, _)
GSz(fam, n) ==
  IF n = 1 THEN LeavesOf(fam)
  ELSE UnLayer(fam, GSz(fam, n - 1))
       \cup UNION {BinLayer(fam, GSz(fam, i), GSz(fam, n - 1 - i)) : i \in 1..(n - 2)}
(* template families: hand-written shapes that a size-bounded enumeration would not reach *)
LP == "("
RP == ")"
Ref1 == <<"ref", 1>>
RecTemplates ==
  { <<"rec", <<"or", <<"then", J("a"), Ref1>>, J("b")>>>>,                                   \* a* b, right recursion
    <<"rec", <<"delim", <<"ornot", Ref1>>, J(LP), J(RP)>>>>,                                 \* nested parentheses
    <<"rec", <<"then", J("a"), <<"ornot", Ref1>>>>>>,
    <<"rec", <<"or", <<"then", J("a"), <<"rec", <<"or", <<"then", J("b"), <<"ref", 2>>>>, J("b")>>>>>>, J("a")>>>>,  \* mutual
    <<"rec", <<"collect", <<"rep", <<"or", <<"delim", Ref1, J(LP), J(RP)>>, J("a")>>, 0, Inf>>, "vec">>>>,       \* token trees
    <<"rec", <<"or", <<"map", <<"then", J(LP), <<"theni", Ref1, J(RP)>>>>, "f">>, J("a")>>>>,
    <<"rec", <<"or", <<"then", J("a"), <<"then", Ref1, Ref1>>>>, J("b")>>>>,                    \* two self references
    <<"then", <<"rec", <<"or", <<"then", J("a"), Ref1>>, J("b")>>>>, <<"rec", <<"or", <<"then", J(LP), Ref1>>, J(RP)>>>>>>,
    <<"rec", <<"or", <<"then", J("a"), <<"memo", Ref1>>>>, J("b")>>>>,                          \* memoized recursive step
    <<"rec", <<"memo", <<"delim", <<"ornot", Ref1>>, J(LP), J(RP)>>>>>>,
    <<"rec", <<"or", <<"then", J("a"), <<"boxed", Ref1>>>>, <<"empty">>>>>> }
(* left recursion cut by memoization: expr = expr op atom | atom *)
LRecTemplates ==
  { <<"rec", <<"memo", <<"or", <<"then", Ref1, <<"then", J("+"), J("a")>>>>, J("a")>>>>>>,
    <<"rec", <<"or", <<"then", <<"memo", Ref1>>, <<"then", J("+"), J("a")>>>>, J("a")>>>>,
    <<"rec", <<"memo", <<"or", <<"then", Ref1, J("a")>>, J("a")>>>>>>,
    <<"rec", <<"memo", <<"or", <<"map", <<"then", Ref1, <<"then", J("+"), Ref1>>>>, "f">>, J("a")>>>>>>,
    \* the recursion passes through a context scope: the memo table is the parse's, not the scope's
    <<"rec", <<"memo", <<"or", <<"then", <<"withctx", VI(0), Ref1>>, <<"then", J("+"), J("a")>>>>, J("a")>>>>>>,
    <<"rec", <<"memo", <<"or", <<"then", <<"ignctx", <<"empty">>, Ref1>>, <<"then", J("+"), J("a")>>>>, J("a")>>>>>>,
    <<"rec", <<"or", <<"then", <<"mapctx", "num", <<"memo", Ref1>>>>, <<"then", J("+"), J("a")>>>>, J("a")>>>>,
    \* the cut (the memoized parser met again at the same position) is a FAILURE like any other: it leaves a pending
    \* error for the wrappers that rely on one (map_err, recover_with, labelled) -- C20
    <<"rec", <<"memo", <<"or", <<"then", <<"maperr", Ref1, "tag">>, <<"then", J("+"), J("a")>>>>, J("a")>>>>>>,
    <<"rec", <<"memo", <<"or", <<"then", <<"recover", Ref1, <<"via", <<"to", J("+"), "r">>>>>>, <<"then", J("+"), J("a")>>>>, J("a")>>>>>>,
    <<"rec", <<"memo", <<"or", <<"then", <<"label", Ref1, "L", TRUE>>, <<"then", J("+"), J("a")>>>>, J("a")>>>>>>,
    <<"rec", <<"or", <<"then", <<"maperr", <<"memo", Ref1>>, "id">>, <<"then", J("+"), J("a")>>>>, J("a")>>>> }
(* repetition shapes (C02): every bound / flag combination over a few item and separator      *)
(* parsers, each also followed by a rest-capturing continuation so that the position the      *)
(* repetition leaves behind is observable                                                      *)
RItems == {J("a"), <<"any">>, JJ("a", "b")}
RSeps == {J(","), JJ(",", ","), <<"ornot", J(",")>>}
RBounds == {<<0, Inf>>, <<1, Inf>>, <<0, 1>>, <<1, 2>>, <<2, 2>>, <<0, 0>>, <<2, Inf>>}
RReps == {<<"rep", a, b[1], b[2]>> : a \in RItems, b \in RBounds}
RSepsIt == {<<"sep", a, sp, b[1], b[2], l, t>> : a \in RItems, sp \in RSeps, b \in RBounds, l \in BOOLEAN, t \in BOOLEAN}
RestCap == <<"collect", <<"rep", <<"any">>, 0, Inf>>, "vec">>
RShapes ==
  {<<"collect", it, k>> : it \in RReps, k \in {"vec", "count", "count2", "str", "unit"}}
  \cup {<<"collect", it, "vec">> : it \in RSepsIt}
  \cup {<<"run", it>> : it \in RReps \cup RSepsIt}
  \cup {<<"exact", it, n>> : it \in {x \in RReps \cup RSepsIt : x[2] = J("a")}, n \in {1, 2}}
  \cup {<<"collect", <<"enum", it>>, "vec">> : it \in {x \in RReps \cup RSepsIt : x[2] = <<"any">>}}
  \cup {<<"foldl", J("a"), it, "g">> : it \in {x \in RReps : x[2] = <<"any">>}}
  \cup {<<"foldr", it, J("a"), "g">> : it \in {x \in RReps : x[2] = J("a")}}
  \cup {<<"withctx", VI(n), <<"collect", <<"cfgrep", <<"rep", a, 0, Inf>>>>, "vec">>>> : n \in 0..2, a \in RItems}
  \* configure() overrides at_least / at_most individually, also with 0, whatever the static bounds were
  \cup {<<"withctx", VI(n), <<"collect", <<cf, <<"rep", J("a"), b[1], b[2]>>>>, "vec">>>> :
           n \in 0..2, cf \in {"cfgrep", "cfgrepmin", "cfgrepmax"}, b \in {<<1, Inf>>, <<2, 2>>, <<0, 1>>, <<1, 2>>}}
  \* a configured repetition used as a plain parser (IterConfigure::go), followed by a rest capture
  \cup {<<"withctx", VI(n), <<"run", <<cf, <<"rep", J("a"), b[1], b[2]>>>>>>>> :
           n \in 0..2, cf \in {"cfgrep", "cfgrepmin", "cfgrepmax"}, b \in {<<0, Inf>>, <<1, 2>>, <<2, 2>>}}
(* configured repetitions whose item consumes before it fails (the last, partial item must be given back whichever *)
(* bound came from the configuration), collected and as plain parsers                                                *)
RCfgPartial ==
  {<<"withctx", VI(n), <<k[1], <<cf, <<"rep", JJ("a", ","), b[1], b[2]>>>>, k[2]>>>> :
      n \in 0..2, cf \in {"cfgrep", "cfgrepmin", "cfgrepmax"}, b \in {<<0, Inf>>, <<1, 2>>}, k \in {<<"collect", "vec">>, <<"collect", "count">>}}
  \cup {<<"withctx", VI(n), <<"run", <<cf, <<"rep", JJ("a", ","), 0, Inf>>>>>>>> : n \in 0..2, cf \in {"cfgrep", "cfgrepmin", "cfgrepmax"}}
(* p.into_iter(): an iterator whose items come from p's output, not from the input *)
IIVecs == {<<"collect", <<"rep", a, b[1], b[2]>>, "vec">> : a \in {J("a"), <<"any">>}, b \in {<<0, Inf>>, <<1, 2>>, <<2, Inf>>}}
         \cup {<<"collect", <<"sep", J("a"), J(","), 0, Inf, FALSE, TRUE>>, "vec">>}
IIts == {<<"intoiter", v>> : v \in IIVecs}
IIShapes ==
  {<<"collect", it, k>> : it \in IIts, k \in {"vec", "count"}}
  \cup {<<"run", it>> : it \in IIts}
  \cup {<<"exact", it, n>> : it \in IIts, n \in {1, 2}}
  \cup {<<"foldl", J("a"), it, "g">> : it \in IIts}
  \cup {<<"foldr", it, J("a"), "g">> : it \in IIts}
  \cup {<<"collect", <<"rep", <<"then", J(","), <<"collect", it, "vec">>>>, 0, Inf>>, "vec">> : it \in IIts}
RepTemplates == RShapes \cup {<<"then", sh, RestCap>> : sh \in RShapes} \cup IIShapes \cup {<<"then", sh, RestCap>> : sh \in IIShapes}
                \cup RCfgPartial \cup {<<"then", sh, RestCap>> : sh \in RCfgPartial}
(* Pratt (C09): operator tables over symbols + - * ! ~ ^ with powers 0..3, same symbol allowed *)
(* as prefix and infix; atoms a / b                                                              *)
PAtom == <<"oneof", <<"a", "b">>>>
PTables ==
  { << <<"infixl", 1, J("+")>>, <<"infixl", 2, J("*")>> >>,
    << <<"infixl", 1, J("+")>>, <<"infixr", 1, J("^")>> >>,                    \* equal powers, opposite associativity
    << <<"infixr", 2, J("^")>>, <<"infixl", 1, J("+")>>, <<"prefix", 3, J("-")>> >>,
    << <<"prefix", 1, J("-")>>, <<"infixl", 2, J("-")>>, <<"postfix", 3, J("!")>> >>,   \* same symbol prefix and infix
    << <<"prefix", 2, J("-")>>, <<"postfix", 1, J("!")>>, <<"infixl", 1, J("+")>> >>,
    << <<"postfix", 2, J("!")>>, <<"prefix", 3, J("~")>>, <<"infixr", 0, J("+")>>, <<"infixl", 0, J("*")>> >>,
    << <<"infixl", 2, J("+")>>, <<"infixl", 1, J("+")>> >>,                    \* the same symbol twice: declaration order decides
    << <<"infixl", 0, J("+")>>, <<"infixl", 1, J("*")>>, <<"infixr", 2, J("^")>>, <<"prefix", 3, J("-")>>, <<"postfix", 3, J("!")>>, <<"infixl", 1, J("-")>> >> }
(* C09: loosely binding prefix operators under tighter infix operators, equal powers with opposite associativity: *)
(* shapes that need five or six tokens (run over a small alphabet)                                                  *)
PTablesP ==
  { << <<"prefix", 0, J("-")>>, <<"infixl", 2, J("*")>>, <<"infixl", 1, J("+")>> >>,
    << <<"infixl", 1, J("+")>>, <<"infixr", 1, J("*")>> >>,
    << <<"infixr", 1, J("+")>>, <<"infixl", 1, J("*")>>, <<"postfix", 0, J("-")>> >>,
    << <<"prefix", 1, J("-")>>, <<"infixr", 2, J("*")>>, <<"infixl", 0, J("+")>>, <<"postfix", 1, J("+")>> >> }
PrattPTemplates == {<<"pratt", <<"oneof", <<"a">>>>, t, k>> : t \in PTablesP, k \in {"vec", "tuple"}}
(* binding powers from the whole range of the type (u16): doubling them must not wrap or overflow (C09, C20) *)
PTablesH ==
  { << <<"prefix", 65535, J("-")>>, <<"infixl", 32768, J("+")>>, <<"infixr", 32767, J("*")>> >>,
    << <<"infixl", 65535, J("+")>>, <<"postfix", 65535, J("!")>>, <<"prefix", 40000, J("-")>> >>,
    << <<"infixr", 65535, J("*")>>, <<"infixl", 65534, J("+")>>, <<"postfix", 32768, J("!")>> >> }
PrattHTemplates == {<<"pratt", <<"oneof", <<"a">>>>, t, k>> : t \in PTablesH, k \in {"vec", "tuple"}}
PrattTemplates ==
  {<<"pratt", PAtom, t, k>> : t \in PTables, k \in {"vec", "tuple"}}
  \cup {<<"then", <<"pratt", PAtom, t, "vec">>, RestCap>> : t \in PTables}
(* C09: operator parsers that are more than one symbol: doubled symbols next to single ones in both declaration   *)
(* orders (the shorter one shadows the longer: its operand fails, the operator is rewound and the longer one is      *)
(* tried), a choice of symbols, operator parsers that emit (an abandoned operator leaves no trace: C05)              *)
PA1 == <<"oneof", <<"a">>>>
VJ(t) == <<"validate", J(t), "1", "F">>
PTablesM ==
  { << <<"infixl", 2, JJ("*", "*")>>, <<"infixl", 1, J("*")>> >>,
    << <<"infixl", 1, J("*")>>, <<"infixr", 2, JJ("*", "*")>> >>,
    << <<"prefix", 2, JJ("-", "-")>>, <<"prefix", 1, J("-")>>, <<"infixl", 1, J("-")>> >>,
    << <<"postfix", 2, JJ("!", "!")>>, <<"postfix", 1, J("!")>>, <<"infixl", 0, <<"or", J("*"), J("-")>>>> >>,
    << <<"infixl", 1, VJ("*")>>, <<"postfix", 1, JJ("*", "!")>> >>,
    << <<"prefix", 1, VJ("-")>>, <<"infixl", 1, J("-")>>, <<"postfix", 0, VJ("!")>> >> }
PrattMTemplates == {<<"pratt", PA1, t, k>> : t \in PTablesM, k \in {"vec", "tuple"}}
(* parenthesised sub-expressions: the atom refers back to the whole expression (the usual shape of an expression   *)
(* grammar), so Pratt invocations nest through recursive()                                                          *)
PRecAtom == <<"or", PA1, <<"delim", Ref1, J(LP), J(RP)>>>>
PTablesR ==
  { << <<"infixl", 1, J("+")>>, <<"infixl", 2, J("*")>> >>,
    << <<"prefix", 1, J("+")>>, <<"postfix", 2, J("*")>> >>,
    << <<"infixr", 1, J("+")>>, <<"prefix", 2, J("*")>> >> }
PrattRTemplates == {<<"rec", <<"pratt", PRecAtom, t, k>>>> : t \in PTablesR, k \in {"vec", "tuple"}}
                   \cup {<<"rec", <<"pratt", <<"or", PA1, <<"mw", <<"delim", Ref1, J(LP), J(RP)>>>>>>, t, "vec">>>> : t \in PTablesR}
(* custom(..) closures as programs over InputRef's public methods (C01, C04, C05, C07, C10, C18): consuming, peeking, *)
(* skipping, saving and rewinding by hand, running sub-parsers (which may emit) in place and abandoning them            *)
EmAny == <<"validate", <<"any">>, "1", "F">>
Progs ==
  { <<"prog", << <<"n">>, <<"sv">>, <<"n">>, <<"rw">> >>, <<>>>>,                                 \* one token, one of lookahead
    <<"prog", << <<"sv">>, <<"sub", 1>>, <<"rw">>, <<"n">> >>, <<EmAny>>>>,                        \* the emission is rewound away
    <<"prog", << <<"sub", 1>>, <<"p", "b">>, <<"n">> >>, <<EmAny>>>>,                              \* kept only if b follows
    <<"prog", << <<"n">>, <<"s">>, <<"f">> >>, <<>>>>,                                             \* fails after consuming, no rewind
    <<"prog", << <<"p", "a">>, <<"s">>, <<"s">> >>, <<>>>>,                                        \* skip() at the end of input
    <<"prog", << <<"sv">>, <<"n">>, <<"n">>, <<"rw">>, <<"sub", 1>>, <<"chk", 2>> >>, <<J("a"), J("b")>>>>,
    <<"prog", << <<"sub", 1>>, <<"sv">>, <<"s">>, <<"rw">> >>, << <<"or", JJ("a", "b"), J("a")>> >>>>,
    <<"prog", << <<"n">>, <<"chk", 1>>, <<"sv">>, <<"sub", 1>>, <<"rw">> >>, <<EmAny>>>>,
    \* a sub-parser that emits and THEN fails: what it emitted stays (nobody rewound), through parse and through check alike
    <<"prog", << <<"sub", 1>> >>, << <<"then", EmAny, J("b")>> >>>>,
    <<"prog", << <<"chk", 1>> >>, << <<"then", EmAny, J("b")>> >>>>,
    <<"prog", << <<"p", "a">>, <<"chk", 1>>, <<"n">> >>, << <<"then", EmAny, <<"then", EmAny, J("!")>>>> >>>>,
    \* observers: spans since a remembered position (before and after a rewind), the inspector, the context, by way of the
    \* MaybeRef flavours of next / peek
    <<"prog", << <<"nm">>, <<"sv">>, <<"ss">>, <<"nm">>, <<"ss">>, <<"st">>, <<"rw">>, <<"ss">>, <<"st">> >>, <<>>>>,
    <<"prog", << <<"pm", "a">>, <<"st">>, <<"n">>, <<"st">>, <<"cx">>, <<"sub", 1>>, <<"ss">>, <<"st">> >>, << <<"ornot", J("b")>> >>>>,
    <<"prog", << <<"sv">>, <<"sub", 1>>, <<"ss">>, <<"st">>, <<"rw">>, <<"st">>, <<"s">>, <<"ss">> >>, << <<"collect", <<"rep", J("a"), 0, Inf>>, "vec">> >>>> }
ProgTemplates ==
  Progs \cup {<<"then", pg, RestCap>> : pg \in Progs}
  \cup {<<"or", <<"then", pg, J("!")>>, RestCap>> : pg \in Progs}
  \cup {<<"then", <<"ornot", <<"then", pg, J("a")>>>>, RestCap>> : pg \in Progs}
  \cup {<<"then", <<"mw", pg>>, <<"mw", RestCap>>>> : pg \in Progs}
  \cup {<<"collect", <<"rep", pg, 0, Inf>>, "vec">> : pg \in {x \in Progs : ~CanEmpty(x)}}
  \cup {<<"then", <<"andis", pg, <<"any">>>>, RestCap>> : pg \in Progs}
(* one memoized parser VALUE used twice (C11): the second use at the same position must behave *)
(* like the first; nullable memoized parsers; a memoized failure hit again after a different    *)
(* alternative failed at the same position                                                      *)
Var1 == <<"var", 1>>
MemoDefs == {<<"memo", x>> : x \in {J("a"), <<"ornot", J("a")>>, JJ("a", "b"), <<"collect", <<"rep", J("a"), 0, Inf>>, "vec">>,
                                      <<"trymap", <<"any">>, "nfa">>, <<"or", JJ("a", "b"), J("a")>>}}
MemoBodies == { <<"or", <<"then", Var1, J("a")>>, <<"then", Var1, J("b")>>>>,
                <<"or", <<"then", Var1, J("b")>>, <<"or", J("b"), Var1>>>>,
                <<"then", <<"ornot", <<"then", Var1, J("b")>>>>, Var1>>,
                <<"or", <<"then", J("a"), Var1>>, <<"then", Var1, <<"then", Var1, J("b")>>>>>>,
                <<"collect", <<"rep", <<"or", <<"then", Var1, J("b")>>, J("b")>>, 0, Inf>>, "vec">>,
                \* the memoized failure first happens where the pending error is thrown away (not, a successful
                \* recovery), then the same value is hit again at the same position outside
                <<"or", <<"ithen", <<"not", Var1>>, J("b")>>, <<"then", Var1, J("b")>>>>,
                <<"or", <<"then", <<"recover", <<"then", Var1, J("c")>>, <<"via", <<"to", J("b"), "r">>>>>>, J("c")>>, <<"then", Var1, J("b")>>>> }
MemoTemplates == {<<"let", d, b>> : d \in MemoDefs, b \in MemoBodies}
(* recovery inside recovery (C08): the inner parser itself emits errors *)
RInner == {<<"via", J("b")>>, <<"skipuntil", <<"any">>, J("b")>>, <<"retry", <<"any">>, J("b")>>}
ROuter == {<<"via", J("a")>>, <<"skipuntil", <<"any">>, <<"end">>>>, <<"skipuntil", <<"any">>, J("a")>>,
           <<"retry", <<"any">>, <<"end">>>>, <<"retry", J("b"), <<"end">>>>, <<"retry", <<"any">>, JJ("!", "!")>>}
RcvTemplates ==
  {<<"recover", <<"theni", <<"recover", J("a"), i>>, J("!")>>, o>> : i \in RInner, o \in ROuter}
  \cup {<<"collect", <<"rep", <<"recover", <<"theni", <<"recover", J("a"), i>>, J("!")>>, o>>, 0, Inf>>, "vec">> :
           i \in RInner, o \in {<<"retry", <<"any">>, <<"end">>>>, <<"skipuntil", <<"any">>, J("!")>>}}
  \cup {<<"or", <<"then", J("a"), <<"then", J("b"), J("!")>>>>, <<"recover", J("b"), o>>>> : o \in ROuter}
  \cup {<<"choicev", << <<"theni", <<"recover", J("a"), i>>, J("!")>>, RestCap >> >> : i \in RInner}
  \cup {<<"choicev", << J("!"), <<"theni", <<"recover", J("a"), i>>, J("!")>>, <<"then", J("b"), RestCap>> >> >> : i \in RInner}
(* nested_delimiters (C08): recover_with(via_parser(nested_delimiters(start, end, others, fallback))) -- the  *)
(* fallback parser as recovery.rs:249-274 builds it: block = (many_block | any().and_is(none_of(skip))).repeated(), *)
(* many_block = block delimited by any of the pairs; the whole delimited by (start, end); fallback(span)           *)
NDBlock(pairs) ==
  LET skip == [i \in 1..(2 * Len(pairs)) |-> pairs[(i + 1) \div 2][IF i % 2 = 1 THEN 1 ELSE 2]]
      RECURSIVE Many(_)
      Many(k) == IF k = 1 THEN <<"delim", Ref1, J(pairs[1][1]), J(pairs[1][2])>>
                 ELSE <<"or", Many(k - 1), <<"delim", Ref1, J(pairs[k][1]), J(pairs[k][2])>>>>
  IN <<"rec", <<"run", <<"rep", <<"or", Many(Len(pairs)), <<"ignored", <<"andis", <<"any">>, <<"noneof", skip>>>>>>>>, 0, Inf>>>>>>
NDStrat(pairs) ==
  <<"nesteddelim", pairs[1][1], pairs[1][2], SubSeq(pairs, 2, Len(pairs)),
    <<"text", "nd", <<pairs[1][1], pairs[1][2]>> \o SubSeq(pairs, 2, Len(pairs)),
      <<"map", <<"tospan", <<"delim", NDBlock(pairs), J(pairs[1][1]), J(pairs[1][2])>>>>, "nd">>>>>>
NDStrats == {NDStrat(<< <<LP, RP>> >>), NDStrat(<< <<LP, RP>>, <<"[", "]">> >>)}
NDInner == {<<"delim", <<"collect", <<"rep", J("a"), 0, Inf>>, "vec">>, J(LP), J(RP)>>,
            <<"delim", <<"then", J("a"), J("a")>>, J(LP), J(RP)>>,
            <<"then", J(LP), <<"then", J("a"), J(RP)>>>>}
RcvNTemplates ==
  {<<"recover", x, s>> : x \in NDInner, s \in NDStrats}
  \cup {<<"then", <<"recover", x, s>>, RestCap>> : x \in NDInner, s \in NDStrats}
  \cup {<<"collect", <<"rep", <<"recover", x, s>>, 0, Inf>>, "vec">> : x \in NDInner, s \in NDStrats}
(* C15 / C20: counts that come from the input may be anything: a configured bound as large as a count can be (the  *)
(* harness reads Huge as usize::MAX) must behave like any other bound -- never reached as a minimum, never binding as *)
(* a maximum                                                                                                          *)
Huge == 2000000000
CfgTemplates ==
  {<<"withctx", VI(n), <<"collect", <<cf, <<"rep", a, b[1], b[2]>>>>, k>>>> :
      n \in {0, 1, Huge}, cf \in {"cfgrep", "cfgrepmin", "cfgrepmax"}, a \in {J("a"), <<"any">>}, b \in {<<0, Inf>>, <<1, 2>>}, k \in {"vec", "count"}}
  \cup {<<"withctx", VI(Huge), <<"run", <<cf, <<"rep", J("a"), 0, Inf>>>>>>>> : cf \in {"cfgrep", "cfgrepmin", "cfgrepmax"}}
  \cup {<<"thenctx", <<"map", <<"any">>, "big">>, <<"collect", <<cf, <<"rep", J("a"), 0, Inf>>>>, "vec">>>> : cf \in {"cfgrep", "cfgrepmin", "cfgrepmax"}}

(* C16: a failure inside a nested input meets the pending error of an earlier alternative that failed at the very   *)
(* position the nested failure is re-homed to (right after the token tree), in both orders of the alternatives       *)
NstInner == {J("a"), <<"then", J("a"), J("b")>>, <<"collect", <<"rep", J("a"), 0, Inf>>, "vec">>, <<"validate", <<"any">>, "1", "F">>}
NstFlat == {<<"then", <<"any">>, J("a")>>, <<"then", <<"any">>, J("b")>>, <<"then", <<"any">>, <<"end">>>>}
NstTemplates ==
  {<<"or", fl, <<"nested", i, TreeLeaf>>>> : fl \in NstFlat, i \in NstInner}
  \cup {<<"or", <<"nested", i, TreeLeaf>>, fl>> : fl \in NstFlat, i \in NstInner}
  \cup {<<"choicev", <<fl, <<"nested", i, TreeLeaf>>, <<"then", <<"nested", i, TreeLeaf>>, J("b")>>>>>> : fl \in NstFlat, i \in NstInner}
  \cup {<<"then", <<"nested", i, TreeLeaf>>, <<"or", J("a"), <<"nested", j, TreeLeaf>>>>>> : i \in NstInner, j \in NstInner}

(* C05 under recovery: parsers that can succeed while emitting, wrapped in every strategy, retried, abandoned *)
EmitA == {<<"then", <<"validate", <<"any">>, "1", "nfa">>, J("b")>>, <<"validate", JJ("a", "b"), "2", "F">>,
          <<"then", <<"validate", <<"any">>, "1", "F">>, <<"then", <<"validate", <<"any">>, "2", "nfa">>, J("!")>>>>}
EmitStrats == {<<"retry", <<"any">>, <<"end">>>>, <<"retry", <<"any">>, J("!")>>, <<"skipuntil", <<"any">>, J("!")>>,
               <<"via", <<"validate", <<"any">>, "3", "F">>>>, <<"via", <<"to", <<"any">>, "r">>>>}
RcvETemplates ==
  {<<"recover", a, s>> : a \in EmitA, s \in EmitStrats}
  \cup {<<"then", <<"recover", a, s>>, RestCap>> : a \in EmitA, s \in EmitStrats}
  \cup {<<"collect", <<"rep", <<"recover", a, s>>, 0, Inf>>, "vec">> : a \in EmitA, s \in {<<"retry", <<"any">>, J("!")>>, <<"skipuntil", <<"any">>, J("!")>>}}
  \cup {<<"or", <<"then", <<"recover", a, s>>, J("!")>>, RestCap>> : a \in EmitA, s \in EmitStrats}
  \cup {<<"andis", <<"recover", a, s>>, RestCap>> : a \in EmitA, s \in EmitStrats}
  \* slice / Vec choices (they rewind before each alternative, not after a failed one): an alternative that recovered or
  \* emitted and THEN failed leaves nothing behind, wherever it stands among the alternatives
  \cup {<<"choicev", << <<"then", <<"recover", a, s>>, J("!")>>, RestCap >> >> : a \in EmitA, s \in EmitStrats}
  \cup {<<"choicev", << J("!"), <<"then", <<"recover", a, s>>, J("!")>>, RestCap >> >> : a \in EmitA, s \in {<<"via", <<"to", <<"any">>, "r">>>>, <<"skipuntil", <<"any">>, J("!")>>}}
  \cup {<<"choice", << <<"then", a, J("!")>>, RestCap >> >> : a \in EmitA}
  \* separated lists whose last item attempt emits and then fails (given back: after a trailing separator too)
  \cup {<<"then", <<"collect", <<"sep", a, J("!"), 0, Inf, l, t>>, "vec">>, RestCap>> : a \in EmitA, l \in BOOLEAN, t \in BOOLEAN}
(* decorations around parsers that succeed while leaving a pending error behind, followed by  *)
(* a later failure; an earlier alternative that failed further ahead (C17)                     *)
LInner == {<<"then", J("a"), <<"ornot", J("b")>>>>, <<"then", J("a"), <<"or", J("b"), J("c")>>>>,
           <<"collect", <<"rep", J("a"), 0, Inf>>, "vec">>, J("a"), <<"then", J("a"), <<"validate", <<"any">>, "1", "F">>>>}
LDecor(x) == {<<"label", x, "L", FALSE>>, <<"label", x, "L", TRUE>>, <<"maperr", x, "tag">>, <<"maperr", x, "id">>,
              <<"label", <<"label", x, "M", TRUE>>, "L", TRUE>>}
LblTemplates ==
  UNION {{<<"then", d, fo>> : d \in LDecor(x), fo \in {J("c"), J("b"), <<"then", J("b"), J("c")>>}} : x \in LInner}
  \cup UNION {{<<"or", <<"then", J("a"), <<"then", J("b"), J("c")>>>>, <<"then", d, J("c")>>>> : d \in LDecor(x)} : x \in LInner}
  \* a decorated parser that FAILS while an error lies pending further ahead (left by an earlier alternative, or by an
  \* optional tail that was given back): the decoration applies to its own failure only, the pending error stays as it is
  \cup UNION {UNION {{<<"or", <<"then", J("a"), <<"then", J("b"), J("c")>>>>, d>>,
                      <<"or", <<"then", J("a"), J("b")>>, <<"then", d, J("a")>>>>,
                      <<"then", J("a"), <<"then", <<"ornot", <<"then", J("b"), J("c")>>>>, d>>>>} : d \in LDecor(x)} :
               x \in {J("c"), JJ("c", "a"), <<"then", J("c"), J("b")>>}}
(* C19: fixed-size collection that fails part-way: arrays of three, nested arrays, inside repetition and recovery *)
DLeaves == {<<"map", <<"any">>, "f">>, <<"to", J("b"), "k">>, J("a"), <<"map", J("a"), "f">>}
DArr3 == {<<"grouparr", <<x, y, z>>>> : x \in DLeaves, y \in DLeaves, z \in DLeaves}
DrpTemplates ==
  DArr3 \cup {<<"or", g, RestCap>> : g \in DArr3}
  \cup {<<"collect", <<"rep", <<"grouparr", <<x, y>>>>, 0, Inf>>, "vec">> : x \in DLeaves, y \in DLeaves}
  \cup {<<"grouparr", <<<<"grouparr", <<x, y>>>>, z>>>> : x \in DLeaves, y \in DLeaves, z \in DLeaves}
  \cup {<<"then", <<"ornot", <<"exact", <<"rep", x, 0, Inf>>, 3>>>>, RestCap>> : x \in DLeaves}
  \cup {<<"recover", g, <<"via", <<"to", <<"any">>, "r">>>>>> : g \in {<<"grouparr", <<x, y>>>> : x \in DLeaves, y \in DLeaves}}
(* C14: the parsers of chumsky::text as the grammars src/text.rs builds them from *)
TM(cls) == <<"trymap", <<"any">>, cls>>                              \* any().try_map(|c| if class(c) { Ok } else { Err(expected ..) })
Run0(cls) == <<"run", <<"rep", TM(cls), 0, Inf>>>>
TWs == <<"text", "ws", "", <<"toslice", Run0("ws")>>>>                                 \* whitespace().to_slice()
TIws == <<"text", "iws", "", <<"toslice", Run0("iws")>>>>
TNl == <<"text", "nl", "", <<"toslice", <<"newline">>>>>>
TDigits(r) == <<"text", "digits", r, <<"toslice", <<"run", <<"rep", TM("dig" \o r), 1, Inf>>>>>>>>
TInt(r) == <<"text", "int", r,
              <<"toslice", <<"or", <<"ignored", <<"then", TM("nz" \o r), Run0("dig" \o r)>>>>, <<"ignored", J("0")>>>>>>>>
IdentG(cst, cco) == <<"toslice", <<"then", TM(cst), Run0(cco)>>>>
TAIdent == <<"text", "aident", "", IdentG("aidstart", "aidcont")>>
TUIdent == <<"text", "uident", "", IdentG("uidstart", "uidcont")>>
TAKw(k) == <<"text", "akw", k, <<"toslice", <<"sleq", IdentG("aidstart", "aidcont"), k>>>>>>
TUKw(k) == <<"text", "ukw", k, <<"toslice", <<"sleq", IdentG("uidstart", "uidcont"), k>>>>>>
TextParsers == {TWs, TIws, TNl, TAIdent, TUIdent, TAKw(<<"a">>), TAKw(<<"a", "1">>), TUKw(<<"E", "a">>), TUKw(<<"_">>)}
               \cup {TDigits(r) : r \in {"2", "10", "16"}} \cup {TInt(r) : r \in {"2", "8", "10", "16", "36"}}
TxtTemplates ==
  TextParsers
  \cup {<<"then", tp, RestCap>> : tp \in TextParsers}                                   \* what is left after the match
TxtCTemplates ==
  {<<"tpadded", tp>> : tp \in TextParsers \ {TWs, TIws, TNl}}
  \cup {<<"then", <<"tpadded", tp>>, RestCap>> : tp \in {TInt("10"), TAIdent}}
  \cup {<<"collect", <<"sep", tp, <<"tpadded", J("+")>>, 0, Inf, FALSE, FALSE>>, "vec">> : tp \in {TInt("10"), TUIdent, TAKw(<<"a">>)}}
  \cup {<<"then", TAKw(<<"a">>), <<"then", TWs, TAIdent>>>>, <<"or", TAKw(<<"a">>), TAIdent>>,
        <<"collect", <<"rep", <<"theni", TAIdent, TNl>>, 0, Inf>>, "vec">>,
        <<"collect", <<"rep", <<"or", TInt("10"), <<"or", TUIdent, <<"or", TNl, TDigits("16")>>>>>>, 0, 3>>, "vec">>}
(* spans of matches that consume nothing, after / between / before consumed tokens (C07, C10): where the *)
(* input kinds differ most (gapped token spans, end of input, byte offsets)                                *)
GapBefore == {J("a"), <<"any">>, <<"ornot", J("a")>>, JJ("a", "b")}
GapEmpty == {<<"empty">>, <<"ornot", J("b")>>, <<"collect", <<"rep", J("b"), 0, Inf>>, "vec">>, <<"rewind", <<"any">>>>, <<"not", J("b")>>}
GapCore == {<<"then", x, <<cap, e>>>> : x \in GapBefore, cap \in {"tospan", "mw"}, e \in GapEmpty}
           \cup {<<"then", x, <<"validate", e, "1", "F">>>> : x \in GapBefore, e \in {<<"empty">>, <<"ornot", J("b")>>}}
           \cup {<<"then", x, <<"ornot", <<"trymap", e, "F">>>>>> : x \in GapBefore, e \in {<<"empty">>, <<"ornot", J("b")>>}}
GapTemplates ==
  GapCore \cup {<<"then", g, RestCap>> : g \in GapCore}
  \cup {<<"collect", <<"rep", <<"then", J("a"), <<"tospan", <<"ornot", J("b")>>>>>>, 0, Inf>>, "vec">>,
        <<"foldlw", <<"any">>, <<"rep", <<"then", J("a"), <<"tospan", <<"empty">>>>>>, 0, Inf>>, "g">>,
        <<"foldrw", <<"rep", J("a"), 0, Inf>>, <<"tospan", <<"empty">>>>, "g">>}
(* C04: extension parsers that run a sub-parser through InputRef::parse / InputRef::check, the sub-parser succeeding *)
(* with a pending error left behind, or failing behind an earlier alternative that got further                        *)
ExtInner == {<<"then", <<"validate", <<"any">>, "2", "F">>, J("b")>>, <<"ornot", J("a")>>, <<"collect", <<"rep", J("a"), 0, Inf>>, "vec">>, <<"or", JJ("a", "b"), J("a")>>, J("a"),
             <<"then", J("a"), <<"validate", <<"ornot", J("b")>>, "1", "F">>>>}
ExtAfter == {J("b"), <<"then", J("b"), J("c")>>, <<"empty">>}
ExtTemplates ==
  UNION {{<<sq, <<"extsub", x>>, y>> : sq \in {"then", "ithen", "theni"}, y \in ExtAfter} : x \in ExtInner}
  \cup {<<"or", <<"then", J("a"), <<"then", J("b"), J("c")>>>>, <<"then", <<"extsub", x>>, J("c")>>>> : x \in ExtInner}
  \cup {<<"collect", <<"rep", <<"extsub", <<"then", J("a"), <<"ornot", J("b")>>>>>>, 0, Inf>>, "vec">>,
        <<"run", <<"rep", <<"extsub", <<"then", J("a"), <<"ornot", J("b")>>>>>>, 0, Inf>>>>}
(* slices of sub-matches that stop before the end of the input (C07), for every input kind that has slices *)
SlcInner == {J("a"), JJ("a", "b"), <<"ornot", J("b")>>, <<"any">>, <<"collect", <<"rep", J("a"), 0, Inf>>, "vec">>, <<"rewind", <<"any">>>>}
SlcTemplates == {<<"then", <<"toslice", x>>, RestCap>> : x \in SlcInner}
                \cup {<<"then", J("a"), <<"then", <<"toslice", x>>, RestCap>>>> : x \in SlcInner}
                \cup {<<"then", <<"mw", <<"toslice", x>>>>, <<"toslice", RestCap>>>> : x \in SlcInner}
(* The repository's own grammars, transcribed over small alphabets (examples/json.rs, examples/brainfuck.rs, the   *)
(* pinned tests exponential / left_recursive / err_prio_1 / zero_copy, a nano_rust-like block): how the combinators   *)
(* work TOGETHER -- recursion through separated_by whose separator recovers, delimiters whose closing parser          *)
(* recovers twice, nested_delimiters behind two more strategies, padding, labels, memoized left recursion             *)
ExIgnAny == <<"ignored", <<"any">>>>
ExSep(cl) == <<"recover", <<"tpadded", J(",")>>, <<"retry", ExIgnAny, <<"ignored", <<"oneof", <<",", cl>>>>>>>>>>
ExClose(cl) == <<"recover", <<"recover", <<"ignored", J(cl)>>, <<"via", <<"end">>>>>>, <<"retry", ExIgnAny, <<"end">>>>>>
ExArr == <<"delim", <<"tpadded", <<"collect", <<"sep", Ref1, ExSep("]"), 0, Inf, FALSE, TRUE>>, "vec">>>>, J("["), ExClose("]")>>
ExJsonAlts == << <<"to", J("n"), "null">>, <<"map", TInt("10"), "number">>, <<"map", ExArr, "arr">> >>
ExJson == <<"rec", <<"tpadded", <<"recover", <<"recover", <<"choice", ExJsonAlts>>, NDStrat(<< <<"[", "]">> >>)>>,
                                            <<"retry", ExIgnAny, <<"ignored", <<"oneof", <<",", "]">>>>>>>>>>>>>>
ExJsonPlain == <<"rec", <<"tpadded", <<"choice", ExJsonAlts>>>>>>         \* the same grammar without the outer strategies
ExBf == <<"rec", <<"collect", <<"rep", <<"recover", <<"or", <<"choice", << <<"to", J("+"), "inc">>, <<"to", J("-"), "dec">> >> >>,
                                                            <<"map", <<"delim", Ref1, J("["), J("]")>>, "loop">>>>,
                                          NDStrat(<< <<"[", "]">> >>)>>, 0, Inf>>, "vec">>>>
ExWord == <<"collect", <<"rep", <<"filter", <<"any">>, "aidstart">>, 1, Inf>>, "str">>
ExAtomP == <<"or", ExWord, <<"delim", Ref1, J(LP), J(RP)>>>>
ExExponential == <<"rec", <<"or", <<"memo", <<"map", <<"then", <<"theni", ExAtomP, J("+")>>, ExAtomP>>, "cat">>>>, ExAtomP>>>>
ExLeftRec == <<"rec", <<"or", <<"memo", <<"map", <<"then", <<"theni", Ref1, J("+")>>, Ref1>>, "cat">>>>, ExWord>>>>
ExErrPrio == <<"trymap", <<"choice", << <<"ignored", JJ("a", "b")>>, <<"empty">> >> >>, "F">>
ExZeroCopy == <<"collect", <<"rep", <<"tpadded", <<"or", <<"mw", <<"toslice", <<"run", <<"rep", <<"filter", <<"any">>, "aidstart">>, 1, Inf>>>>>>>>,
                                                   <<"mw", TInt("10")>>>>>>, 0, Inf>>, "vec">>
ExBlock == <<"rec", <<"label", <<"delim", <<"collect", <<"sep", <<"or", Ref1, <<"label", TAIdent, "ident", FALSE>>>>,
                                                            <<"tpadded", J(",")>>, 0, Inf, TRUE, TRUE>>, "vec">>, J(LP),
                                  <<"recover", <<"ignored", J(RP)>>, <<"skipuntil", ExIgnAny, <<"end">>>>>>>>, "block", TRUE>>>>
ExTemplates == {ExJson, ExJsonPlain, ExBf, ExExponential, ExErrPrio, ExZeroCopy, ExBlock}
ExLTemplates == {ExLeftRec}
Templates(fam) == CASE fam = "memoT" -> MemoTemplates [] fam = "cfgT" -> CfgTemplates [] fam = "nstT" -> NstTemplates [] fam = "progT" -> ProgTemplates [] fam = "slcT" -> SlcTemplates [] fam = "extT" -> ExtTemplates [] fam = "gapT" -> GapTemplates [] fam = "gapTi" -> {g \in GapTemplates : ~HasOp(g, {"any", "not"})} [] fam = "rcvE" -> RcvETemplates [] fam = "stat" -> StatGrammars [] fam = "rcvN" -> RcvNTemplates [] fam = "exT" -> ExTemplates [] fam = "exL" -> ExLTemplates [] fam = "txt" -> TxtTemplates [] fam = "txtc" -> TxtCTemplates
                    \* byte inputs have no text::newline; the radix family looks at int / digits only
                    [] fam = "txtb" -> {g \in TxtTemplates \cup TxtCTemplates : ~HasOp(g, {"newline"}) /\ g \notin {TUKw(<<"E", "a">>), <<"then", TUKw(<<"E", "a">>), RestCap>>}}
                    [] fam = "txtr" -> {<<"then", tp, RestCap>> : tp \in {TDigits(r) : r \in {"2", "8", "10", "16", "36"}} \cup {TInt(r) : r \in {"2", "8", "10", "16", "36"}}} [] fam = "drpT" -> DrpTemplates [] fam = "rcvT" -> RcvTemplates [] fam = "lblT" -> LblTemplates
                    [] fam = "pratt" -> PrattTemplates [] fam = "prattP" -> PrattPTemplates [] fam = "prattH" -> PrattHTemplates [] fam = "iiT" -> IIShapes \cup {<<"then", sh, RestCap>> : sh \in IIShapes} \cup RCfgPartial \cup {<<"then", sh, RestCap>> : sh \in RCfgPartial} [] fam = "prattM" -> PrattMTemplates [] fam = "prattRec" -> PrattRTemplates [] fam = "rec" -> RecTemplates [] fam = "lrec" -> LRecTemplates [] fam = "repT" -> RepTemplates
TemplateFams == {"exT", "exL", "prattH", "iiT", "progT", "cfgT", "nstT", "rec", "lrec", "repT", "pratt", "prattP", "prattM", "prattRec", "memoT", "rcvT", "lblT", "drpT", "txt", "txtc", "txtb", "txtr", "gapT", "gapTi", "rcvN", "stat", "rcvE", "extT", "slcT"}

(* Instrumentation (C01, C18): every node of a grammar is wrapped in probe(enter).ignore_then(node).then_ignore(   *)
(* probe(exit)); a probe consumes nothing, never fails and logs (id, cursor, inspector state, context), so the   *)
(* sequence of probe events shows which sub-parser was attempted where and how far each one got.  Probe ids       *)
(* encode the node's path (children numbered 1..9) and enter / exit.                                               *)
RECURSIVE PathNum(_)
PathNum(path) == IF path = <<>> THEN 1 ELSE 10 * PathNum(Front(path)) + Last(path)
Wrap(x, path) == <<"ithen", <<"probe", 2 * PathNum(path)>>, <<"theni", x, <<"probe", 2 * PathNum(path) + 1>>>>>>
RECURSIVE Instr(_, _)
InstrSeq(s, path) == [i \in DOMAIN s |-> Instr(s[i], Append(path, i))]
Instr(g, path) ==
  LET o == Op(g) IN
  CASE o \in {"then", "ithen", "theni", "or", "andis"} -> Wrap(<<o, Instr(g[2], Append(path, 1)), Instr(g[3], Append(path, 2))>>, path)
    [] o \in {"choice", "choicev"} -> Wrap(<<o, InstrSeq(g[2], path)>>, path)
    [] o \in {"ornot", "not", "rewind", "ignored", "mw"} -> Wrap(<<o, Instr(g[2], Append(path, 1))>>, path)
    [] o \in {"map", "to", "filter", "trymap"} -> Wrap(<<o, Instr(g[2], Append(path, 1)), g[3]>>, path)
    [] o = "collect" /\ Op(g[2]) = "rep" -> Wrap(<<"collect", <<"rep", Instr(g[2][2], Append(path, 1)), g[2][3], g[2][4]>>, g[3]>>, path)
    [] OTHER -> Wrap(g, path)
InstrFams == {"pegI", "emitI"}
BaseFam == IF Fam = "pegI" THEN "peg" ELSE "emit"

Grammars == IF Fam \in InstrFams THEN {Instr(g, <<>>) : g \in {x \in UNION {GSz(BaseFam, n) : n \in 1..MaxSize} : WF(x)}}
            ELSE IF Fam \in TemplateFams THEN {g \in Templates(Fam) : Fam \in {"lrec", "exL"} \/ WF(g)}
            ELSE {g \in UNION {GSz(Fam, n) : n \in 1..MaxSize} : WF(g)}

RECURSIVE InputSeqs(_)
InputSeqs(n) == IF n = 0 THEN {<<>>} ELSE {Append(s, x) : s \in InputSeqs(n - 1), x \in Inputs}
CaseSet == IF HistLen = 0
           THEN {[g |-> g, inp |-> x, offs |-> Offs(k, x), kind |-> k, ety |-> e, mode |-> m] :
                   g \in Grammars, x \in Inputs, k \in Kinds, e \in Etys, m \in Modes}
           ELSE {[g |-> g, inp |-> x, offs |-> Offs(k, x), kind |-> k, ety |-> e, mode |-> m,
                  more |-> h, moffs |-> [i \in DOMAIN h |-> Offs(k, h[i])]] :
                   g \in Grammars, x \in Inputs, k \in Kinds, e \in Etys, m \in Modes, h \in InputSeqs(HistLen)}
MCCases == SetToSeq(CaseSet)

MCInit == Init /\ cid % NChunks = Chunk
MCNext == CoreNext
MCSpec == MCInit /\ [][MCNext]_vars

---------------------------------------------------------------------------
(* Property invariants *)

X == [toks |-> Toks, offs |-> COffs, kind |-> Case.kind, lo |-> 0, hi |-> NTok]
XOf(fr) == [X EXCEPT !.lo = fr.rng[1], !.hi = fr.rng[2]]
KfClean == \A s \in DOMAIN kf : IsOpen(s) \/ kf[s] = "off"
OpenOn(s) == s \in DOMAIN kf /\ kf[s] = "on"
(* the failure events that count under the readings chosen in this behaviour *)
FlOf(d) == {e \in d.fl : e.rd = "any" \/ e.rd = (IF OpenOn("o:tm_end") THEN "end" ELSE "start")}
DenTop == D(<<"theni", G, <<"end">>>>, X, 0, VU, <<>>)
EnvBodies(env) == [i \in DOMAIN env |-> env[i].body]
ErrsOf(s) == [i \in DOMAIN s |-> s[i].err]

(* emissions of the reference are full (Rich-shaped) errors; project them *)
NormSeq(s) == [i \in DOMAIN s |-> IF IsMark(s[i]) THEN s[i] ELSE Norm(Ety, s[i])]
(* emissions agree; where the reference says "one recovered error here" any error is accepted *)
(* (its content is the machine's pending error at the failure, checked by conformance)        *)
EmAgree(es, dem) == /\ Len(es) = Len(dem)
                    /\ \A i \in DOMAIN es : IsMark(dem[i]) \/ [es[i] EXCEPT !.ctxs = <<>>] = Norm(Ety, dem[i])

(* C01/C02 (+C05 on sub-parsers): every sub-parser return refines the     *)
(* reference: same acceptance, same end position, same value, and the     *)
(* secondary errors added since its entry are the reference's emissions.  *)
RetRefines ==
  (ret.set /\ ~st.done /\ KfClean /\ ret.fr.role \in {"go", "pratt"}) =>
    LET fr == ret.fr
        d == IF Op(fr.g) = "pratt" THEN DPratt(fr.g, XOf(fr), fr.cp.cur, fr.ctx, EnvBodies(fr.env), fr.n)
             ELSE D(fr.g, XOf(fr), fr.cp.cur, fr.ctx, EnvBodies(fr.env))
    IN /\ ret.ok = d.ok
       /\ ret.ok => /\ cur = d.end
                    /\ fr.mode = "E" => ret.val = d.val
                    /\ Len(sec) >= fr.cp.nsec
                    /\ EmAgree(ErrsOf(SubSeq(sec, fr.cp.nsec + 1, Len(sec))), d.em)

(* C18: whenever anything can observe it, the inspector has seen exactly  *)
(* the tokens before the cursor                                           *)
InspConsistent == (~st.done /\ ~IsTree) => insp = cur

CursorInBounds == cur >= 0 /\ cur <= NTok

(* C03 / C05 at the end of the parse *)
ResultContract ==
  (st.done /\ ~st.panicked /\ KfClean) =>
    LET d == DenTop IN
    /\ result.ok = d.ok
    /\ result.ok => /\ cur = NTok
                    /\ EmAgree(result.errs, d.em)
                    /\ TopMode = "E" => result.out = d.val
    /\ ~result.ok => Len(result.errs) >= 1

(* C06: the primary error of a failed parse is the furthest failure with  *)
(* merged expectations (grammars without negative lookahead)              *)
TotalLen == IF Gapped THEN 3 * NTok ELSE COffs[NTok + 1]
TokStart(i) == IF Gapped THEN GStart(i) ELSE COffs[i + 1]        \* start offset of the token after cursor i
OffTok(o) == IF \E i \in 0..(NTok - 1) : TokStart(i) = o
             THEN Toks[(CHOOSE i \in 0..(NTok - 1) : TokStart(i) = o) + 1] ELSE ""
FurthestFailure ==
  (st.done /\ ~st.panicked /\ ~result.ok /\ KfClean /\ Ety # "empty"
   /\ ~HasOp(G, {"not", "recover", "label", "maperr", "nested", "pratt", "extsub", "prog"})) =>
    LET d == DenTop
        e == result.errs[Len(result.errs)]
    IN /\ 0 <= e.s /\ e.s <= e.e /\ (~IsTree => e.e <= TotalLen)
       /\ FlOf(d) # {} =>
            LET P == MaxPos(FlOf(d))
                customs == {ev.err.cust : ev \in {x \in AtMax(FlOf(d)) : x.err.cust # ""}}
            IN /\ alt.some /\ alt.pos = P
               /\ Ety = "rich" =>
                    IF customs # {} THEN e.cust \in customs
                    ELSE /\ e.cust = ""
                         /\ e.exp = UNION {ev.err.exp : ev \in AtMax(FlOf(d))}
               \* `found` is the token at the start of the span (user-supplied errors carry no `found`;
               \* Simple and Cheap cannot tell them apart, so the clause applies when none is involved)
               \* (token trees: offsets are relative to the group the failure lies in; not decoded here)
               /\ (Ety \in {"rich", "simple"} /\ customs = {} /\ ~IsTree) => e.found = OffTok(e.s)

(* C06 / C17: decorations (labelled, as_context, map_err) change how a failure is described, never where it lies: *)
(* also for decorated grammars the pending error of a failed parse lies at the furthest failure of the reference   *)
(* (whose denotation erases the decorations)                                                                        *)
FurthestPos ==
  (st.done /\ ~st.panicked /\ ~result.ok /\ KfClean /\ Ety # "empty"
   /\ HasOp(G, {"label", "maperr"})
   /\ ~HasOp(G, {"not", "recover", "nested", "pratt", "extsub", "prog"})) =>
    LET d == DenTop IN
    FlOf(d) # {} => (alt.some /\ alt.pos = MaxPos(FlOf(d)))

(* C07: every span / slice captured in the output is well-formed: start <= end, inside the   *)
(* input; for &str on character boundaries (an offset of some cursor)                          *)
RECURSIVE SpansIn(_)
RECURSIVE SpansInSeq(_)
SpansInSeq(s) == IF s = <<>> THEN {} ELSE SpansIn(Head(s)) \cup SpansInSeq(Tail(s))
SpansIn(v) ==
  CASE v[1] \in {"Sp", "Sl"} -> {<<v[2], v[3]>>}
    [] v[1] = "W" -> {<<v[3], v[4]>>} \cup SpansIn(v[2])
    [] v[1] = "P" -> SpansIn(v[2]) \cup SpansIn(v[3])
    [] v[1] \in {"L", "G", "A"} -> SpansInSeq(v[2])
    [] v[1] = "O" -> SpansIn(v[2])
    [] v[1] = "M" -> SpansIn(v[3])
    [] v[1] = "F" -> SpansIn(v[3]) \cup SpansIn(v[4])
    [] OTHER -> {}
Boundaries == IF Gapped THEN 0..(3 * NTok) ELSE {COffs[i] : i \in DOMAIN COffs}
SpansWellFormed ==
  (st.done /\ result.ok /\ KfClean) =>
     \A sp \in SpansIn(result.out) : sp[1] <= sp[2] /\ sp[1] \in Boundaries /\ sp[2] \in Boundaries

(* C09: flattening the tree a Pratt parser built yields the consumed tokens in order *)
RECURSIVE Flat(_)
RECURSIVE FlatSeq(_)
FlatSeq(s) == IF s = <<>> THEN <<>> ELSE Flat(Head(s)) \o FlatSeq(Tail(s))
Flat(v) ==
  CASE v[1] = "T" -> <<v[2]>>
    [] v[1] = "S" -> v[2]
    [] v[1] = "W" -> Flat(v[2])
    [] v[1] = "F" -> Flat(v[3]) \o Flat(v[4])
    [] v[1] = "P" -> Flat(v[2]) \o Flat(v[3])
    [] v[1] = "L" -> FlatSeq(v[2])
    [] OTHER -> <<>>
PrattFlatten ==
  (st.done /\ result.ok /\ TopMode = "E" /\ Fam \in {"pratt", "prattP", "prattM"}) => Flat(result.out) = Toks

(* C14: whenever a text parser returns, it matched exactly the prefix its documented language   *)
(* prescribes (and failed where the language has no match), and its output is that slice        *)
TextRefines ==
  (ret.set /\ ~st.done /\ Op(ret.fr.g) = "text") =>
    LET fr == ret.fr
        m == TextMatch(fr.g[2], fr.g[3], SubSeq(Toks, fr.cp.cur + 1, fr.rng[2]))
        sp == SpanOf(fr.cp.cur, cur)
    IN /\ ret.ok = (m >= 0)
       /\ ret.ok => /\ cur = fr.cp.cur + m
                    /\ fr.mode = "E" => ret.val = (IF fr.g[2] = "nd" THEN VM("nd", VSp(sp[1], sp[2])) ELSE VSl(sp[1], sp[2]))

(* C19: every tracked value is either in the returned output or has been dropped: nothing is   *)
(* lost at the sites that manage initialisation by hand (group over arrays, collect_exactly)   *)
NoLeak == KfClean => st.leaked = 0

(* C20: no "can't fail" unwrap is ever hit, and the machine makes progress *)
NoPanic == ~st.panicked
(* (the bound is generous: linear in the input for the grammars of the families, with a large constant) *)
StepBound == st.steps <= 400 * (NTok + 2)

---------------------------------------------------------------------------
(* REPLAY: one line per finished behaviour, for the Rust harness *)
ErrJson(e) == [s |-> e.s, e |-> e.e, found |-> e.found, exp |-> e.exp, cust |-> e.cust, ctxs |-> e.ctxs]
ResJson(r) == [ok |-> r.ok, out |-> r.out, errs |-> [i \in DOMAIN r.errs |-> ErrJson(r.errs[i])],
               panic |-> r.panic, insp |-> r.insp, leaked |-> r.leaked]
ReplayRec ==
  [cid |-> cid, g |-> G, inp |-> Case.inp, kind |-> Case.kind, ety |-> Ety, mode |-> TopMode,
   kf |-> {s \in DOMAIN kf : kf[s] = "on" /\ ~IsOpen(s)},
   res |-> ResJson(result),
   obs |-> obs,
   more |-> IF "more" \in DOMAIN Case THEN Case.more ELSE <<>>,      \* C13: the further inputs of the history ...
   past |-> [i \in DOMAIN st.past |-> ResJson(st.past[i])]]          \* ... and the results of its earlier parses
LastRun == st.run = MoreRuns \/ st.panicked
Replay == (st.done /\ LastRun) => PrintT("REPLAY " \o ToJson(ReplayRec))

---------------------------------------------------------------------------
(* Trace validation (implementation -> specification).  The Rust harness   *)
(* runs the real crate on cases of its own choosing and records, per case, *)
(* the case, the full observation and a mask saying which fields the       *)
(* property under check pins.  With `Cases <- TraceCases` the machine is   *)
(* run on exactly those cases and every finished behaviour prints a        *)
(* verdict: does the recorded observation equal this behaviour's, on the   *)
(* pinned fields?  A case is accepted when some behaviour matches.         *)
(* The recorded cases reach TLC as a literal constant: the driver transcribes the harness's    *)
(* ndjson file into module RecData (operator RecData) next to a copy of the specification.    *)
(* (Reading the file with ndJsonDeserialize works too, but TLC re-evaluates that operator on  *)
(* every reference, i.e. re-reads the file in every state.)                                   *)
Rec == RecData
(* the case part of the records, materialised by the driver (offs included): a plain tuple, *)
(* which TLC caches, unlike a function constructor over Rec whose body it re-evaluates      *)
TraceCases == RecCases

RErr(e) == MkErr(e.s, e.e, e.found, SeqToSet(e.exp), e.cust, e.ctxs)
LastKey(e) == <<e.s, e.e, e.found, e.exp, e.cust>>
MatchErrs(how, rok, real, model) ==
  LET all == Len(real) = Len(model) /\ \A i \in DOMAIN real : RErr(real[i]) = model[i] IN
  CASE how = "all" -> all
    [] how = "ifok" -> rok => all
    [] how = "last" -> ~rok => (Len(real) >= 1 /\ Len(model) >= 1
                               /\ LastKey(RErr(real[Len(real)])) = LastKey(model[Len(model)]))
    [] how = "spans" -> Len(real) = Len(model) /\ \A i \in DOMAIN real : real[i].s = model[i].s /\ real[i].e = model[i].e
    [] how = "empty" -> (Len(real) = 0) = (Len(model) = 0)
    [] how = "none" -> TRUE
MatchObs(how, real, model) ==
  LET n == CASE how = "none" -> 0 [] how = "ext" -> 2 [] how = "insp" -> 3 [] how = "all" -> 4 IN
  n = 0 \/ (Len(real) = Len(model) /\ \A i \in DOMAIN real : \A k \in 1..n : real[i][k] = model[i][k])
MatchesMask(m) ==
  LET r == Rec[cid] IN
  /\ r.res.panic = result.panic
  /\ r.res.ok = result.ok
  /\ (m.out /\ result.ok /\ TopMode = "E") => r.res.out = result.out
  /\ MatchErrs(m.errs, result.ok, r.res.errs, result.errs)
  /\ MatchObs(m.obs, r.obs, obs)
  /\ (m.insp /\ result.ok) => r.res.insp = result.insp
  /\ (m.leak /\ ~result.panic) => r.res.leaked = result.leaked
  \* C13: the earlier parses of the history, each compared like a parse of its own
  /\ ("past" \in DOMAIN r) =>
       /\ Len(r.past) = Len(st.past)
       /\ \A i \in DOMAIN st.past :
            /\ r.past[i].panic = st.past[i].panic /\ r.past[i].ok = st.past[i].ok
            /\ (m.out /\ st.past[i].ok /\ TopMode = "E") => r.past[i].out = st.past[i].out
            /\ MatchErrs(m.errs, st.past[i].ok, r.past[i].errs, st.past[i].errs)
Matches == MatchesMask(Rec[cid].mask)
FullMask == [out |-> TRUE, errs |-> "all", obs |-> "all", insp |-> TRUE, leak |-> TRUE]
(* the verdict carries both the match on the fields the property pins and the match on the    *)
(* full observation (the driver uses the latter to attribute a failed real-only assertion to  *)
(* a known defect branch)                                                                     *)
Verdict ==
  (st.done /\ LastRun) => /\ PrintT(<<"VERDICT", cid, {s \in DOMAIN kf : kf[s] = "on" /\ ~IsOpen(s)}, Matches, MatchesMask(FullMask)>>)
             /\ (Matches \/ PrintT("MODEL " \o ToJson(ReplayRec)))

(* compact error traces *)
Brief == [g |-> G, inp |-> Toks, ety |-> Ety, mode |-> TopMode, kf |-> kf, cur |-> cur, alt |-> alt, sec |-> sec,
          top |-> IF stack # <<>> THEN <<Op(Top.g), Top.pc, Top.role>> ELSE <<>>,
          ret |-> <<ret.set, ret.ok, ret.val>>, result |-> result, st |-> st]

View == <<cid, stack, ret, cur, alt, sec, insp, memo, kf, st, result>>
=============================================================================
