------------------------------ MODULE AltGlue ------------------------------
(***************************************************************************)
(* Ties AltRule.tla (the rule proved inductive by Apalache) to Errs.tla    *)
(* (the rule the machine uses, which the conformance checks bind to        *)
(* InputRef::add_alt / add_alt_err): on Rich errors without user messages  *)
(* the two definitions compute the same position and expectations, for     *)
(* every pending error, position and expectation of a small universe.      *)
(* Checked by TLC as ASSUMEs (the behaviour part is a dummy).              *)
(***************************************************************************)
EXTENDS Errs

VARIABLE x
Init == x = 0
Next == x' = x
Spec == Init /\ [][Next]_x

P == 0..3
L == {"a", "b", "c"}
Alts == {NoAlt} \cup {SomeAlt(p, MkErr(p, p, "", s, "", <<>>)) : p \in P, s \in (SUBSET L) \ {{}}}
View(a) == IF a.some THEN <<TRUE, a.pos, a.err.exp>> ELSE <<FALSE, 0, {}>>

(* AltRule!AddAlt *)
RuleAdd(a, at, e) ==
  IF ~a.some THEN <<TRUE, at, {e}>>
  ELSE IF a.pos = at THEN <<TRUE, a.pos, a.err.exp \cup {e}>>
  ELSE IF a.pos > at THEN <<TRUE, a.pos, a.err.exp>>
  ELSE <<TRUE, at, {e}>>
(* AltRule!Unshelter: the child's alt c over the sheltered alt s *)
RuleMerge(s, c) ==
  IF ~c.some THEN View(s)
  ELSE IF ~s.some THEN View(c)
  ELSE IF s.pos = c.pos THEN <<TRUE, c.pos, s.err.exp \cup c.err.exp>>
  ELSE IF s.pos > c.pos THEN View(s)
  ELSE View(c)

ASSUME \A a \in Alts, at \in P, e \in L :
         View(AddAlt("rich", a, at, {e}, "", at, at)) = RuleAdd(a, at, e)
ASSUME \A s \in Alts, c \in Alts :
         View(IF c.some THEN AddAltErr("rich", s, c.pos, c.err) ELSE s) = RuleMerge(s, c)
=============================================================================
