------------------------------ MODULE RecCell ------------------------------
(***************************************************************************)
(* C12: the life cycle of recursive parser handles (src/recursive.rs).     *)
(*                                                                         *)
(* A Recursive<P> is a handle on a reference-counted cell: Owned(Rc) or    *)
(* Unowned(Weak).  Recursive::declare() makes an empty cell and an owning  *)
(* handle; define() fills the cell's once-cell (a second define panics and *)
(* leaves the first definition in force); recursive(f) makes a cell whose  *)
(* body sees itself through a weak handle and returns an owning handle;    *)
(* Clone copies the handle (owning stays owning); a definition that        *)
(* contains clones of handles keeps those cells alive (reference cycles    *)
(* are never freed).  Using a handle means upgrading it and reading the    *)
(* once-cell: a dead cell or an empty once-cell is a panic.                *)
(*                                                                         *)
(* The property (C12): once defined, a parser "may be cloned, boxed and    *)
(* dropped freely" -- every live handle keeps parsing exactly the language *)
(* of the definition, whatever happened to the other handles -- and a      *)
(* second define is refused with a panic, never silently accepted.         *)
(*                                                                         *)
(* TLC enumerates every history of handle operations up to MaxOps; each    *)
(* finished history is printed (REPLAY) with, after every step, what every *)
(* live handle must answer on every probe input; the Rust harness performs *)
(* the same operations on real Recursive values and compares.              *)
(*                                                                         *)
(* Two cells.  Cell 1 has leaf "a", cell 2 has leaf "b".  Definition kinds:*)
(*   leaf   leaf                                                           *)
(*   self   leaf | "(" self ")"                                            *)
(*   other  leaf | "[" other "]"                                           *)
(*   both   leaf | "(" self ")" | "[" other "]"                            *)
(***************************************************************************)
EXTENDS Naturals, Sequences, FiniteSets, TLC, Json

CONSTANTS MaxOps,       \* length of the histories
          MaxHandles    \* handles created per history

VARIABLES cells,        \* cell id -> [decl, def, how, caps]: declared?, definition kind ("none" if empty), "declare"/"recursive",
                        \*   caps = the cells whose OWNING handles the definition holds
          hs,           \* sequence of handles [cell, live, owning, boxed]
          hist          \* the operations so far, each with its outcome and the expected answers of all live handles

vars == <<cells, hs, hist>>

Cells == {1, 2}
Other(c) == 3 - c
Leaf(c) == IF c = 1 THEN "a" ELSE "b"
Kinds == {"leaf", "self", "other", "both"}
RefSelf(k) == k \in {"self", "both"}
RefOther(k) == k \in {"other", "both"}

Probes == << <<"a">>, <<"b">>, <<"(", "a", ")">>, <<"[", "b", "]">>, <<"[", "a", "]">>, <<"(", "[", "b", "]", ")">>,
             <<"[", "(", "a", ")", "]">>, <<"(", "(", "b", ")", ")">>, <<"(", "a">>, <<>>, <<"[", "[", "a", "]", "]">> >>

(* the language of cell c under the current definitions (deterministic by the first token) *)
RECURSIVE Acc(_, _, _)
Acc(df, c, s) ==
  IF s = <<>> THEN FALSE
  ELSE IF s = <<Leaf(c)>> THEN TRUE
  ELSE IF Len(s) >= 3 /\ s[1] = "(" /\ s[Len(s)] = ")" /\ RefSelf(df[c]) THEN Acc(df, c, SubSeq(s, 2, Len(s) - 1))
  ELSE IF Len(s) >= 3 /\ s[1] = "[" /\ s[Len(s)] = "]" /\ RefOther(df[c]) THEN Acc(df, Other(c), SubSeq(s, 2, Len(s) - 1))
  ELSE FALSE

Defs == [c \in Cells |-> cells[c].def]
(* every cell a parse through c can reach has a definition *)
Closed(c) == /\ cells[c].def # "none"
             /\ RefOther(cells[c].def) => cells[Other(c)].def # "none"

(* Reference counting with cycles: a cell is alive while an owning live handle or the definition of an alive cell *)
(* refers to it -- the GREATEST such set (a cycle keeps itself alive: Rc never frees it)                          *)
HeldByHandle(c) == \E i \in DOMAIN hs : (hs[i].live /\ hs[i].owning /\ hs[i].cell = c)
Held(A) == {c \in Cells : HeldByHandle(c) \/ (\E d \in A : c \in cells[d].caps)}
Alive == LET A1 == Held({c \in Cells : cells[c].decl})
             A2 == Held(A1 \cap {c \in Cells : cells[c].decl})
         IN {c \in Cells : cells[c].decl} \cap A1 \cap A2 \cap Held(A2)

(* what the live handles answer: per handle (index), "dead" (upgrade fails: panic), "undef" (nothing pinned) or   *)
(* the acceptance of every probe                                                                                  *)
Answers ==
  [i \in DOMAIN hs |->
     IF ~hs[i].live THEN <<"dropped">>
     ELSE IF hs[i].cell \notin Alive THEN <<"dead">>
     ELSE IF ~Closed(hs[i].cell) THEN <<"undef">>
     ELSE <<"ok", [p \in DOMAIN Probes |-> Acc(Defs, hs[i].cell, Probes[p])]>>]

Log(op, outcome) == hist' = Append(hist, [op |-> op, outcome |-> outcome, answers |-> Answers'])

Room == Len(hist) < MaxOps
NewHandle(c, own, bx) == [cell |-> c, live |-> TRUE, owning |-> own, boxed |-> bx]
LiveOf(c) == {i \in DOMAIN hs : hs[i].live /\ hs[i].cell = c}
MinOf(S) == CHOOSE x \in S : \A y \in S : x <= y

(* Recursive::declare() *)
Declare(c) ==
  /\ Room /\ ~cells[c].decl /\ Len(hs) < MaxHandles
  /\ cells' = [cells EXCEPT ![c] = [decl |-> TRUE, def |-> "none", how |-> "declare", caps |-> {}]]
  /\ hs' = Append(hs, NewHandle(c, TRUE, FALSE))
  /\ Log(<<"declare", c>>, "ok")

(* recursive(|me| body): the body holds only a WEAK handle on its own cell; kinds leaf / self *)
RecursiveFn(c, k) ==
  /\ Room /\ ~cells[c].decl /\ Len(hs) < MaxHandles /\ k \in {"leaf", "self"}
  /\ cells' = [cells EXCEPT ![c] = [decl |-> TRUE, def |-> k, how |-> "recursive", caps |-> {}]]
  /\ hs' = Append(hs, NewHandle(c, TRUE, FALSE))
  /\ Log(<<"recursive", c, k>>, "ok")

(* define(body) through handle i: the body holds a clone of handle i for the self reference and a clone of the    *)
(* lowest live handle of the other cell for the other reference.  An occupied once-cell refuses: panic.           *)
Define(i, k) ==
  /\ Room /\ i \in DOMAIN hs /\ hs[i].live /\ ~hs[i].boxed
  /\ LET c == hs[i].cell IN
     /\ cells[c].how = "declare"
     /\ RefOther(k) => LiveOf(Other(c)) # {}
     /\ IF cells[c].def = "none"
        THEN /\ cells' = [cells EXCEPT ![c].def = k,
                                        ![c].caps = (IF RefSelf(k) /\ hs[i].owning THEN {c} ELSE {})
                                                    \cup (IF RefOther(k) /\ hs[MinOf(LiveOf(Other(c)))].owning THEN {Other(c)} ELSE {})]
             /\ UNCHANGED hs
             /\ Log(<<"define", i, k, IF RefOther(k) THEN MinOf(LiveOf(Other(c))) ELSE 0>>, "ok")
        ELSE /\ UNCHANGED <<cells, hs>>
             /\ Log(<<"define", i, k, IF RefOther(k) THEN MinOf(LiveOf(Other(c))) ELSE 0>>, "panic")

(* Clone for Recursive<P>: an owning handle stays owning; optionally boxed() afterwards *)
CloneH(i, bx) ==
  /\ Room /\ i \in DOMAIN hs /\ hs[i].live /\ Len(hs) < MaxHandles
  /\ hs' = Append(hs, NewHandle(hs[i].cell, hs[i].owning, bx \/ hs[i].boxed))
  /\ UNCHANGED cells
  /\ Log(<<"clone", i, bx>>, "ok")

DropH(i) ==
  /\ Room /\ i \in DOMAIN hs /\ hs[i].live
  /\ hs' = [hs EXCEPT ![i].live = FALSE]
  /\ UNCHANGED cells
  /\ Log(<<"drop", i>>, "ok")

Init == /\ cells = [c \in Cells |-> [decl |-> FALSE, def |-> "none", how |-> "none", caps |-> {}]]
        /\ hs = <<>>
        /\ hist = <<>>

Next == \/ \E c \in Cells : Declare(c)
        \/ \E c \in Cells, k \in {"leaf", "self"} : RecursiveFn(c, k)
        \/ \E i \in 1..MaxHandles, k \in Kinds : Define(i, k)
        \/ \E i \in 1..MaxHandles, bx \in BOOLEAN : CloneH(i, bx)
        \/ \E i \in 1..MaxHandles : DropH(i)

Spec == Init /\ [][Next]_vars

---------------------------------------------------------------------------
(* C12 on the model *)

(* a live handle never dangles: whatever was cloned and dropped, its cell is alive *)
NoDangling == \A i \in DOMAIN hs : hs[i].live => hs[i].cell \in Alive
(* a definition, once made, is never replaced *)
DefineOnce == [][\A c \in Cells : cells[c].def # "none" => cells'[c].def = cells[c].def]_vars
(* the answers of a handle on a closed cell depend on the definitions only, not on the handle *)
HandleIndependent ==
  \A i, j \in DOMAIN hs : (hs[i].live /\ hs[j].live /\ hs[i].cell = hs[j].cell) => Answers[i] = Answers[j]

Replay == (Len(hist) = MaxOps) => PrintT("RECCELL " \o ToJson([hist |-> hist, probes |-> Probes]))
=============================================================================
