------------------------------- MODULE Ast -------------------------------
(***************************************************************************)
(* Grammar ASTs, output values and the shared vocabulary of user functions *)
(* for the chumsky specification.                                          *)
(*                                                                         *)
(* A grammar is a nested tuple whose first element is the operator tag, so *)
(* that TLC never has to compare values of different shapes, and so that   *)
(* ToJson/ndJsonDeserialize give the same nested JSON arrays the Rust      *)
(* harness reads and writes.  Tokens are one-character strings.            *)
(*                                                                         *)
(*  leaves     <<"just", <<t1..tn>>>>  <<"any">>  <<"oneof", <<ts>>>>      *)
(*             <<"noneof", <<ts>>>>  <<"sel", <<ts>>>>  <<"end">>          *)
(*             <<"empty">>  <<"cust", k, ok>>  <<"probe", id>>             *)
(*             <<"prog", instructions, subparsers>>: custom(..) as a       *)
(*             program over InputRef's public methods (see ChumskyVM)      *)
(*             <<"cfgjust">> (just(..).configure(seq from ctx))            *)
(*             <<"anyr">> any_ref()  <<"selr", <<ts>>>> select_ref!{..}    *)
(*             (the by-reference primitives of BorrowInput kinds)          *)
(*  sequence   <<"then",a,b>> <<"ithen",a,b>> <<"theni",a,b>>              *)
(*             <<"delim",a,s,e>> <<"padded",a,p>>                          *)
(*             <<"group",<<ps>>>> <<"grouparr",<<ps>>>>                    *)
(*  choice     <<"or",a,b>> <<"choice",<<ps>>>> <<"choicev",<<ps>>>>       *)
(*  lookahead  <<"ornot",a>> <<"not",a>> <<"andis",a,b>> <<"rewind",a>>    *)
(*  mapping    <<"map",a,f>> <<"to",a,c>> <<"ignored",a>>                  *)
(*             <<"filter",a,p>> <<"trymap",a,p>> <<"trymapw",a,p>>         *)
(*             <<"validate",a,id,p>> <<"mw",a>> <<"tospan",a>>             *)
(*             <<"toslice",a>> <<"boxed",a>>                               *)
(*  iteration  iter nodes  <<"rep",a,lo,hi>>                               *)
(*                         <<"sep",a,s,lo,hi,lead,trail>>                  *)
(*                         <<"enum",it>>  <<"cfgrep",it>>                  *)
(*                         <<"intoiter",a>>  (a.into_iter())               *)
(*             consumers   <<"collect",it,sink>> <<"exact",it,n>>          *)
(*                         <<"run",it>> <<"foldl",a,it,f>>                 *)
(*                         <<"foldr",it,b,f>>                              *)
(*  recovery   <<"recover",a,strat>> strat = <<"via",p>> |                 *)
(*             <<"skipuntil",skip,until>> | <<"retry",skip,until>>         *)
(*  errors     <<"label",a,l,isctx>> <<"maperr",a,f>>                      *)
(*  memo/rec   <<"memo",a>> <<"rec",a>> <<"ref",k>>                        *)
(*  context    <<"withctx",c,a>> <<"thenctx",a,b>> <<"ignctx",a,b>>        *)
(*             <<"mapctx",f,a>> <<"withstate",a>>                          *)
(*  nesting    <<"nested",a,b>>   (a.nested_in(b))  <<"tree">> leaf        *)
(*  pratt      <<"pratt",atom,<<ops>>,tablekind>>, ops = <<fix,bp,opgrammar>>   *)
(*  text       <<"text",name,arg,derived>>: a parser of chumsky::text; in  *)
(*             the machine it runs `derived`, the grammar text.rs builds   *)
(*             it from; <<"newline">> (a custom parser), <<"sleq",a,seq>>  *)
(*             (a.try_map(|slice| slice == seq)), <<"tpadded",a>>          *)
(*                                                                         *)
(* hi = -1 means "no upper bound".                                         *)
(***************************************************************************)
EXTENDS Naturals, Integers, Sequences, FiniteSets, TLC

Op(g) == g[1]

Inf == -1
LeHi(n, hi) == hi = Inf \/ n <= hi      \* n <= hi with hi possibly unbounded
LtHi(n, hi) == hi = Inf \/ n < hi

Min2(a, b) == IF a <= b THEN a ELSE b
Max2(a, b) == IF a >= b THEN a ELSE b

SeqToSet(s) == {s[i] : i \in DOMAIN s}

RECURSIVE SumSeq(_)
SumSeq(s) == IF s = <<>> THEN 0 ELSE Head(s) + SumSeq(Tail(s))

AnyRun == <<"run", <<"rep", <<"any">>, 0, Inf>>>>       \* any().repeated() used as a parser (lazy)

---------------------------------------------------------------------------
(* Output values: tagged tuples, tag first. *)
VU == <<"U">>                                  \* () -- also the value of everything in Check mode
VT(t) == <<"T", t>>                            \* one token
VS(s) == <<"S", s>>                            \* the sequence given to just(..)
VP(a, b) == <<"P", a, b>>                      \* pair
VL(s) == <<"L", s>>                            \* Vec
VO(v) == <<"O", v>>                            \* Some
VN == <<"N">>                                  \* None
VM(f, v) == <<"M", f, v>>                      \* user mapper f applied
VK(c) == <<"K", c>>                            \* constant from to(..)
VI(n) == <<"I", n>>                            \* integer (count sink, enumerate index)
VC(k) == <<"C", k>>                            \* output of the custom parser that consumed k tokens
VSp(s, e) == <<"Sp", s, e>>                    \* span
VSl(s, e) == <<"Sl", s, e>>                    \* slice, by offsets into the caller's buffer
VW(v, s, e, c, ic) == <<"W", v, s, e, c, ic>>  \* map_with observation: value, span, context, inspector count
VG(s) == <<"G", s>>                            \* tuple from group((..))
VA(s) == <<"A", s>>                            \* array from group([..]) / collect_exactly
VF(f, a, b) == <<"F", f, a, b>>                \* folder f applied to (a, b)
VStr(s) == <<"Str", s>>                        \* String sink: the concatenated tokens
VE(tag) == <<"E", tag>>                        \* recovery fallback marker

(* C19: the number of tracked allocations inside a value -- every value made by a user mapper *)
(* (map, to, select, fold and map_with callbacks) carries one                                    *)
RECURSIVE TrackCount(_)
RECURSIVE TrackCountSeq(_)
TrackCountSeq(s) == IF s = <<>> THEN 0 ELSE TrackCount(Head(s)) + TrackCountSeq(Tail(s))
TrackCount(v) ==
  CASE v[1] = "M" -> 1 + TrackCount(v[3])
    [] v[1] = "K" -> 1
    [] v[1] = "F" -> 1 + TrackCount(v[3]) + TrackCount(v[4])
    [] v[1] = "W" -> 1 + TrackCount(v[2]) + TrackCount(v[5])
    [] v[1] = "P" -> TrackCount(v[2]) + TrackCount(v[3])
    [] v[1] \in {"L", "G", "A"} -> TrackCountSeq(v[2])
    [] v[1] = "O" -> TrackCount(v[2])
    [] OTHER -> 0

(* the leftmost token inside a value, "" if there is none; the argument   *)
(* of the shared filter / try_map / validate predicates                   *)
RECURSIVE FirstTok(_)
RECURSIVE FirstTokSeq(_)
FirstTokSeq(s) ==
  IF s = <<>> THEN ""
  ELSE LET h == FirstTok(Head(s)) IN IF h # "" THEN h ELSE FirstTokSeq(Tail(s))
FirstTok(v) ==
  CASE v[1] = "T" -> v[2]
    [] v[1] = "S" -> IF v[2] = <<>> THEN "" ELSE v[2][1]
    [] v[1] = "Str" -> IF v[2] = <<>> THEN "" ELSE v[2][1]
    [] v[1] = "P" -> FirstTokSeq(<<v[2], v[3]>>)
    [] v[1] \in {"L", "G", "A"} -> FirstTokSeq(v[2])
    [] v[1] = "O" -> FirstTok(v[2])
    [] v[1] = "M" -> FirstTok(v[3])
    [] v[1] = "W" -> FirstTok(v[2])
    [] v[1] = "F" -> FirstTokSeq(<<v[3], v[4]>>)
    [] OTHER -> ""

(* Character classes of the text parsers (C14), over a small alphabet of token names:          *)
(*   0 1 7 9  digits      a f z  letters (a = 10, f = 15, z = 35 as digits of large radices)      *)
(*   _  underscore        E  a non-ASCII letter (U+00E9, two bytes in &str)                       *)
(*   S space  T tab  N line feed  R carriage return  V vertical tab  F form feed                  *)
(*   X U+0085 next line   L U+2028 line separator   P U+2029 paragraph separator   + punctuation   *)
(*   boundary characters: g (first letter that is no hex digit), A (an upper-case letter, digit 10 of large   *)
(*   radices), @ ` / : (the ASCII neighbours of A, a, 0, 9: no digits, no letters), H U+00A0 no-break space   *)
(*   and I U+3000 ideographic space (Unicode whitespace, neither inline nor ASCII), K U+200B zero width       *)
(*   space (NOT whitespace), M U+0663 an Arabic-Indic digit (XID_Continue, no digit of any radix)             *)
DigVal(t) == CASE t = "0" -> 0 [] t = "1" -> 1 [] t = "7" -> 7 [] t = "9" -> 9 [] t = "a" -> 10 [] t = "f" -> 15 [] t = "z" -> 35
                 [] t = "g" -> 16 [] t = "A" -> 10 [] OTHER -> 99
ClsNewline == {"N", "R", "V", "F", "X", "L", "P"}
ClsInlineWs == {"S", "T"}
ClsWs == ClsInlineWs \cup ClsNewline \cup {"H", "I"}
ClsAsciiLetter == {"a", "f", "z", "g", "A"}
ClsDigitChars == {"0", "1", "7", "9"}
InClass(cls, t) ==
  CASE cls = "ws" -> t \in ClsWs
    [] cls = "iws" -> t \in ClsInlineWs
    [] cls = "nl" -> t \in ClsNewline
    [] cls = "aidstart" -> t \in ClsAsciiLetter \cup {"_"}
    [] cls = "aidcont" -> t \in ClsAsciiLetter \cup {"_"} \cup ClsDigitChars
    [] cls = "uidstart" -> t \in ClsAsciiLetter \cup {"_", "E"}
    [] cls = "uidcont" -> t \in ClsAsciiLetter \cup {"_", "E", "M"} \cup ClsDigitChars
    [] cls = "dig2" -> DigVal(t) < 2 [] cls = "dig8" -> DigVal(t) < 8 [] cls = "dig10" -> DigVal(t) < 10
    [] cls = "dig16" -> DigVal(t) < 16 [] cls = "dig36" -> DigVal(t) < 36
    [] cls = "nz2" -> DigVal(t) < 2 /\ t # "0" [] cls = "nz8" -> DigVal(t) < 8 /\ t # "0" [] cls = "nz10" -> DigVal(t) < 10 /\ t # "0"
    [] cls = "nz16" -> DigVal(t) < 16 /\ t # "0" [] cls = "nz36" -> DigVal(t) < 36 /\ t # "0"
ClassNames == {"ws", "iws", "nl", "aidstart", "aidcont", "uidstart", "uidcont", "dig2", "dig8", "dig10", "dig16", "dig36",
               "nz2", "nz8", "nz10", "nz16", "nz36"}

(* shared predicate vocabulary: "T" always accepts, "F" always rejects,   *)
(* "nfa" rejects values whose first token is a; a class name accepts the  *)
(* values whose first token is in the class                               *)
Pred(p, v) ==
  CASE p = "T" -> TRUE
    [] p = "F" -> FALSE
    [] p = "nfa" -> FirstTok(v) # "a"
    [] p = "fa" -> FirstTok(v) = "a"
    [] p \in ClassNames -> InClass(p, FirstTok(v))

(* user mappers: symbolic (VM(f, v)) except the few that compute *)
TokNum(t) == CASE t = "a" -> 1 [] t = "b" -> 2 [] t = "c" -> 3 [] OTHER -> 0
MapFn(f, v) ==
  CASE f = "num" -> VI(TokNum(FirstTok(v)))                     \* token -> number (length prefixes)
    [] f = "big" -> VI(2000000000)                                \* a length prefix as large as a count can be
    [] f = "fst" -> IF v[1] = "P" THEN v[2] ELSE VM(f, v)         \* |(a, _)| a
    [] f = "snd" -> IF v[1] = "P" THEN v[3] ELSE VM(f, v)         \* |(_, b)| b
    [] OTHER -> VM(f, v)

(* sinks of collect *)
Sink(sink, items) ==
  CASE sink = "vec" -> VL(items)
    [] sink \in {"count", "count2"} -> VI(Len(items))      \* collect::<usize>() and .count()
    [] sink = "unit" -> VU
    [] sink = "str" -> VStr([i \in DOMAIN items |-> FirstTok(items[i])])

RECURSIVE FoldL(_, _, _)
FoldL(f, acc, items) == IF items = <<>> THEN acc ELSE FoldL(f, VF(f, acc, Head(items)), Tail(items))
RECURSIVE FoldR(_, _, _)
FoldR(f, items, acc) == IF items = <<>> THEN acc ELSE VF(f, Head(items), FoldR(f, Tail(items), acc))

---------------------------------------------------------------------------
(* Structural analysis used by well-formedness *)

IterOps == {"rep", "sep", "enum", "cfgrep", "cfgrepmin", "cfgrepmax", "cfgreptry", "intoiter"}

(* CanEmpty(g): g may succeed without consuming a token (over-approximation) *)
RECURSIVE CanEmpty(_)
RECURSIVE AllCanEmpty(_)
RECURSIVE SomeCanEmpty(_)
AllCanEmpty(s) == \A i \in DOMAIN s : CanEmpty(s[i])
SomeCanEmpty(s) == \E i \in DOMAIN s : CanEmpty(s[i])
CanEmpty(g) ==
  LET o == Op(g) IN
  CASE o = "just" -> g[2] = <<>>
    [] o \in {"any", "oneof", "noneof", "sel", "tree", "anyr", "selr", "newline"} -> FALSE
    [] o = "text" -> CanEmpty(g[4])
    [] o = "sleq" -> CanEmpty(g[2])
    [] o = "tpadded" -> CanEmpty(g[2])
    [] o \in {"end", "empty", "probe", "cfgjust", "cfgjustr"} -> TRUE
    [] o \in {"cust", "ext"} -> g[2] = 0 /\ g[3]
    \* a program certainly consumes when it starts with next() and never rewinds
    [] o = "prog" -> ~(g[2] # <<>> /\ g[2][1][1] \in {"n", "nm"} /\ \A i \in DOMAIN g[2] : g[2][i][1] # "rw")
    [] o \in {"then", "ithen", "theni"} -> CanEmpty(g[2]) /\ CanEmpty(g[3])
    [] o = "delim" -> CanEmpty(g[2]) /\ CanEmpty(g[3]) /\ CanEmpty(g[4])
    [] o = "padded" -> CanEmpty(g[2])
    [] o \in {"group", "grouparr"} -> AllCanEmpty(g[2])
    [] o = "or" -> CanEmpty(g[2]) \/ CanEmpty(g[3])
    [] o \in {"choice", "choicev"} -> SomeCanEmpty(g[2])
    [] o \in {"ornot", "not", "rewind"} -> TRUE
    [] o = "andis" -> CanEmpty(g[2])
    [] o \in {"map", "to", "ignored", "filter", "trymap", "trymapw", "validate", "mw",
              "tospan", "toslice", "boxed", "memo", "label", "maperr", "rec", "recd", "withstate", "extsub"} -> CanEmpty(g[2])
    [] o = "lazy" -> TRUE
    [] o = "rep" -> g[3] = 0 \/ CanEmpty(g[2])
    [] o = "intoiter" -> CanEmpty(g[2])
    [] o = "sep" -> g[4] = 0 \/ CanEmpty(g[2])
    [] o \in {"enum", "cfgrep", "cfgrepmin", "cfgrepmax", "cfgreptry"} -> TRUE
    [] o \in {"collect", "run"} -> CanEmpty(g[2])
    [] o = "exact" -> g[3] = 0 \/ CanEmpty(g[2])
    [] o \in {"foldl", "foldlw"} -> CanEmpty(g[2]) /\ CanEmpty(g[3])
    [] o \in {"foldr", "foldrw"} -> CanEmpty(g[2]) /\ CanEmpty(g[3])
    [] o = "recover" -> TRUE
    [] o \in {"ref", "var"} -> TRUE
    [] o = "let" -> CanEmpty(g[3])
    [] o \in {"withctx", "mapctx"} -> CanEmpty(g[3])
    [] o \in {"thenctx", "ignctx"} -> CanEmpty(g[2]) /\ CanEmpty(g[3])
    [] o = "nested" -> CanEmpty(g[3])
    [] o = "pratt" -> CanEmpty(g[2])

(* WF(g): every repetition item and every recovery skip step consumes at   *)
(* least one token when it succeeds (the quantifier of C20 and of every    *)
(* grammar class), iterator nodes occur only under their consumers.        *)
RECURSIVE WF(_)
RECURSIVE AllWF(_)
AllWF(s) == \A i \in DOMAIN s : WF(s[i])
WFIter(it) ==
  LET o == Op(it) IN
  CASE o = "rep" -> WF(it[2]) /\ ~CanEmpty(it[2])
    [] o = "sep" -> WF(it[2]) /\ WF(it[3]) /\ ~CanEmpty(it[2])
    \* p.into_iter(): p's output must be a collection -- here always a Vec from collect
    [] o = "intoiter" -> WF(it[2]) /\ Op(it[2]) = "collect" /\ it[2][3] = "vec"
    [] o \in {"enum", "cfgrep", "cfgrepmin", "cfgrepmax", "cfgreptry"} -> Op(it[2]) \in {"rep", "sep"} /\ WF(it[2][2]) /\ ~CanEmpty(it[2][2])
                                   /\ (Op(it[2]) = "sep" => WF(it[2][3]))
    [] OTHER -> FALSE
WFStrat(s) ==
  CASE Op(s) = "via" -> WF(s[2])
    [] Op(s) = "nesteddelim" -> WF(s[5])        \* <<"nesteddelim", start, end, others, derived>>: via_parser(nested_delimiters(..))
    [] Op(s) \in {"skipuntil", "retry"} -> WF(s[2]) /\ WF(s[3]) /\ ~CanEmpty(s[2])
WF(g) ==
  LET o == Op(g) IN
  CASE o \in {"just", "any", "oneof", "noneof", "sel", "end", "empty", "cust", "ext", "probe", "cfgjust", "cfgjustr", "ref", "var", "tree", "anyr", "selr", "newline"} -> TRUE
    [] o = "text" -> WF(g[4])
    \* a rewind needs an earlier save; sub-parser indices are in range
    [] o = "prog" -> /\ AllWF(g[3])
                     /\ \A i \in DOMAIN g[2] : /\ g[2][i][1] = "rw" => \E j \in 1..(i - 1) : g[2][j][1] = "sv"
                                                  /\ g[2][i][1] \in {"sub", "chk"} => g[2][i][2] \in DOMAIN g[3]
    [] o \in {"sleq", "tpadded"} -> WF(g[2])
    [] o \in {"then", "ithen", "theni", "or", "andis", "thenctx", "ignctx", "nested", "let"} -> WF(g[2]) /\ WF(g[3])
    [] o = "delim" -> WF(g[2]) /\ WF(g[3]) /\ WF(g[4])
    [] o = "padded" -> WF(g[2]) /\ WF(g[3])
    [] o \in {"group", "grouparr", "choice", "choicev"} -> AllWF(g[2])
    [] o \in {"ornot", "not", "rewind", "map", "to", "ignored", "filter", "trymap", "trymapw", "validate", "mw",
              "tospan", "toslice", "boxed", "memo", "label", "maperr", "rec", "recd", "withstate", "extsub", "lazy"} -> WF(g[2])
    [] o \in {"collect", "run", "exact"} -> WFIter(g[2])
    [] o \in {"foldl", "foldlw"} -> WF(g[2]) /\ WFIter(g[3])
    [] o \in {"foldr", "foldrw"} -> WFIter(g[2]) /\ WF(g[3])
    [] o = "recover" -> WF(g[2]) /\ WFStrat(g[3])
    [] o \in {"withctx", "mapctx"} -> WF(g[3])
    \* the atom and every operator parser consume input (else the Pratt loop would not advance)
    [] o = "pratt" -> WF(g[2]) /\ ~CanEmpty(g[2]) /\ \A i \in DOMAIN g[3] : WF(g[3][i][3]) /\ ~CanEmpty(g[3][i][3])

(* does the operator occur anywhere in g? *)
RECURSIVE HasOp(_, _)
RECURSIVE AnyHasOp(_, _)
AnyHasOp(s, ops) == \E i \in DOMAIN s : HasOp(s[i], ops)
IsNode(x) == /\ DOMAIN x # {} /\ 1 \in DOMAIN x
HasOp(g, ops) ==
  LET o == Op(g) IN
  \/ o \in ops
  \/ CASE o \in {"just", "any", "oneof", "noneof", "sel", "end", "empty", "cust", "ext", "probe", "cfgjust", "cfgjustr", "ref", "var", "tree", "anyr", "selr", "newline"} -> FALSE
       [] o = "text" -> HasOp(g[4], ops)
       [] o = "prog" -> AnyHasOp(g[3], ops)
       [] o \in {"sleq", "tpadded"} -> HasOp(g[2], ops)
       [] o \in {"then", "ithen", "theni", "or", "andis", "thenctx", "ignctx", "nested", "padded", "let"} -> HasOp(g[2], ops) \/ HasOp(g[3], ops)
       [] o = "delim" -> HasOp(g[2], ops) \/ HasOp(g[3], ops) \/ HasOp(g[4], ops)
       [] o \in {"group", "grouparr", "choice", "choicev"} -> AnyHasOp(g[2], ops)
       [] o \in {"ornot", "not", "rewind", "map", "to", "ignored", "filter", "trymap", "trymapw", "validate", "mw",
                 "tospan", "toslice", "boxed", "memo", "label", "maperr", "rec", "recd", "withstate", "extsub", "lazy",
                 "collect", "run", "exact", "rep", "enum", "cfgrep", "cfgrepmin", "cfgrepmax", "cfgreptry", "intoiter"} -> HasOp(g[2], ops)
       [] o = "sep" -> HasOp(g[2], ops) \/ HasOp(g[3], ops)
       [] o \in {"foldl", "foldr", "foldlw", "foldrw"} -> HasOp(g[2], ops) \/ HasOp(g[3], ops)
       [] o = "recover" -> HasOp(g[2], ops) \/ HasOp(g[3], ops)
       [] o \in {"via"} -> HasOp(g[2], ops)
       [] o = "nesteddelim" -> HasOp(g[5], ops)
       [] o \in {"skipuntil", "retry"} -> HasOp(g[2], ops) \/ HasOp(g[3], ops)
       [] o \in {"withctx", "mapctx"} -> HasOp(g[3], ops)
       [] o = "pratt" -> HasOp(g[2], ops) \/ \E i \in DOMAIN g[3] : HasOp(g[3][i][3], ops)

(* the memoized sub-grammars of g (C11: the identities the memo table should distinguish) *)
RECURSIVE MemoSub(_)
RECURSIVE MemoSubSeq(_)
MemoSubSeq(s) == IF s = <<>> THEN {} ELSE MemoSub(Head(s)) \cup MemoSubSeq(Tail(s))
MemoSub(g) ==
  LET o == Op(g) IN
  (IF o = "memo" THEN {g} ELSE {}) \cup
  CASE o \in {"just", "any", "oneof", "noneof", "sel", "end", "empty", "cust", "ext", "probe", "cfgjust", "cfgjustr", "ref", "var", "tree", "anyr", "selr", "newline"} -> {}
    [] o = "text" -> MemoSub(g[4])
    [] o = "prog" -> MemoSubSeq(g[3])
    [] o \in {"sleq", "tpadded"} -> MemoSub(g[2])
    [] o \in {"then", "ithen", "theni", "or", "andis", "thenctx", "ignctx", "nested", "padded", "let", "sep", "foldl", "foldr", "foldlw", "foldrw",
              "recover", "skipuntil", "retry"} -> MemoSub(g[2]) \cup MemoSub(g[3])
    [] o = "delim" -> MemoSub(g[2]) \cup MemoSub(g[3]) \cup MemoSub(g[4])
    [] o \in {"group", "grouparr", "choice", "choicev"} -> MemoSubSeq(g[2])
    [] o \in {"withctx", "mapctx"} -> MemoSub(g[3])
    [] o = "nesteddelim" -> MemoSub(g[5])
    [] o = "pratt" -> MemoSub(g[2]) \cup UNION {MemoSub(g[3][i][3]) : i \in DOMAIN g[3]}
    [] OTHER -> MemoSub(g[2])

RECURSIVE Size(_)
RECURSIVE SizeSeq(_)
SizeSeq(s) == IF s = <<>> THEN 0 ELSE Size(Head(s)) + SizeSeq(Tail(s))
Size(g) ==
  LET o == Op(g) IN
  CASE o \in {"just", "any", "oneof", "noneof", "sel", "end", "empty", "cust", "ext", "probe", "cfgjust", "cfgjustr", "ref", "tree", "anyr", "selr", "newline", "text", "nesteddelim"} -> 1
    [] o \in {"then", "ithen", "theni", "or", "andis", "thenctx", "ignctx", "nested", "padded", "sep", "foldl", "foldr", "foldlw", "foldrw", "recover", "skipuntil", "retry"} -> 1 + Size(g[2]) + Size(g[3])
    [] o = "delim" -> 1 + Size(g[2]) + Size(g[3]) + Size(g[4])
    [] o \in {"group", "grouparr", "choice", "choicev"} -> 1 + SizeSeq(g[2])
    [] o = "prog" -> 1 + SizeSeq(g[3])
    [] o \in {"withctx", "mapctx"} -> 1 + Size(g[3])
    [] OTHER -> 1 + Size(g[2])
=============================================================================
