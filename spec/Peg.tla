-------------------------------- MODULE Peg --------------------------------
(***************************************************************************)
(* Reference semantics: the PEG reading of a grammar, written from the     *)
(* property statements (C01, C02, C05, C06, C08, C15, C17), not from the   *)
(* code.  D(g, X, p, c, env) is the denotation of grammar g on input X at  *)
(* position p with context c:                                              *)
(*    ok    does g match at p                                              *)
(*    end   position after the match                                       *)
(*    val   the output value (Emit-mode value)                             *)
(*    em    the non-fatal errors emitted along the path that produced the  *)
(*          output, in order (C05)                                         *)
(*    fl    the set of failure events [pos, err] of every alternative that *)
(*          was attempted, from which the furthest failure and the merged  *)
(*          expectations are computed (C06)                                *)
(* X = [toks, offs]: the token sequence and the offsets of the input kind. *)
(***************************************************************************)
EXTENDS Errs

(* the error re-emitted by a successful recovery: its content is "whatever was pending when p  *)
(* failed", which only the machine knows; the reference fixes that there is exactly one, where *)
RecMark == [recovered |-> TRUE]
IsMark(x) == DOMAIN x = {"recovered"}

R(ok, end, val, em, fl) == [ok |-> ok, end |-> end, val |-> val, em |-> em, fl |-> fl]
Fail(fl) == R(FALSE, 0, VU, <<>>, fl)

(* X = [toks, offs, kind, lo, hi]: lo..hi is the flat range of the input context (C16): the whole *)
(* input, or the tokens of one group of a token tree                                               *)
XTok(X, i) == IF i < X.hi THEN X.toks[i + 1] ELSE ""
XIsTree(X) == X.kind \in {"tree", "treem"}
RECURSIVE XClose(_, _, _)
XClose(X, j, depth) ==
  IF j > Len(X.toks) THEN Len(X.toks)
  ELSE IF X.toks[j] = "(" THEN XClose(X, j + 1, depth + 1)
  ELSE IF X.toks[j] = ")" THEN (IF depth = 1 THEN j ELSE XClose(X, j + 1, depth - 1))
  ELSE XClose(X, j + 1, depth)
(* position after the token at p: a group (from "(" to its matching ")") is one token *)
XNxt(X, p) == IF XIsTree(X) /\ p < Len(X.toks) /\ X.toks[p + 1] = "(" THEN XClose(X, p + 2, 1) ELSE p + 1
RECURSIVE XIdx(_, _, _)
XIdx(X, lo, p) == IF p <= lo THEN 0 ELSE 1 + XIdx(X, XNxt(X, lo), p)
(* the span of the tokens between positions i and j: from the start of the first to the end  *)
(* of the last; an empty match gets an empty span lying just before the following token (C07) *)
XGapped(X) == X.kind \in {"mapped", "mstream", "iter", "treem"}
XSpan(X, i, j) ==
  IF X.kind = "tree" THEN <<XIdx(X, X.lo, i), XIdx(X, X.lo, j)>>
  ELSE IF ~XGapped(X) THEN <<X.offs[i + 1], X.offs[j + 1]>>
  ELSE LET n == Len(X.toks) IN
       IF i = X.hi THEN (IF X.lo = 0 /\ X.hi = n THEN <<3 * n, 3 * n>> ELSE <<3 * i + 1, 3 * i + 1>>)
       ELSE IF j > i THEN <<3 * i + 1, 3 * j - 1>>
       ELSE <<3 * i + 1, 3 * i + 1>>

(* a failure event: expected-found error at token position pos *)
(* rd: the reading under which the event counts -- "any", or "start"/"end" for a semantic     *)
(* rejection, whose position (start or end of the rejected match) the statement leaves open  *)
EvEF(X, pos, exp, found, i, j) ==
  LET sp == XSpan(X, i, j) IN [pos |-> pos, rd |-> "any", err |-> MkErr(sp[1], sp[2], found, exp, "", <<>>)]
EvUser(X, pos, i, j, msg) ==
  LET sp == XSpan(X, i, j) IN [pos |-> pos, rd |-> "any", err |-> MkErr(sp[1], sp[2], "", {}, msg, <<>>)]
EvUserRd(X, pos, rd, i, j, msg) ==
  LET sp == XSpan(X, i, j) IN [pos |-> pos, rd |-> rd, err |-> MkErr(sp[1], sp[2], "", {}, msg, <<>>)]
(* failure of a single-token matcher at p *)
EvTok(X, p, exp) == EvEF(X, p, exp, XTok(X, p), p, IF XTok(X, p) = "" THEN p ELSE XNxt(X, p))

DCtxToks(c) == CASE c[1] = "T" -> <<c[2]>> [] c[1] = "S" -> c[2] [] OTHER -> <<>>
DCtxNum(c) == IF c[1] = "I" THEN c[2] ELSE 0

(* longest k such that seq[1..k] = X[p+1..p+k] *)
RECURSIVE Pfx(_, _, _)
Pfx(X, seq, p) == IF seq = <<>> \/ XTok(X, p) = "" \/ XTok(X, p) # Head(seq) THEN 0 ELSE 1 + Pfx(X, Tail(seq), p + 1)

RECURSIVE XAdvK(_, _, _, _)
XAdvK(X, p, k, n) == IF k = 0 \/ p >= X.hi THEN <<p, n>> ELSE XAdvK(X, XNxt(X, p), k - 1, n + 1)
RECURSIVE XSkipWs(_, _)
XSkipWs(X, p) == IF XTok(X, p) \in ClsWs THEN XSkipWs(X, p + 1) ELSE p
RECURSIVE D(_, _, _, _, _)
RECURSIVE DProg(_, _, _, _, _, _, _, _)
RECURSIVE DPratt(_, _, _, _, _, _)
RECURSIVE DPrattLoop(_, _, _, _, _, _, _, _)
RECURSIVE DPrattPrefix(_, _, _, _, _, _, _)
RECURSIVE DPrattPost(_, _, _, _, _, _, _, _, _)
RECURSIVE DPrattInfix(_, _, _, _, _, _, _, _, _)
RECURSIVE DSeq(_, _, _, _, _, _)      \* children left to right
RECURSIVE DAlts(_, _, _, _, _)        \* ordered choice
RECURSIVE DRep(_, _, _, _, _, _, _, _)
RECURSIVE DSep(_, _, _, _, _, _, _)
RECURSIVE DSkipUntil(_, _, _, _, _, _)
RECURSIVE DRetry(_, _, _, _, _, _, _)

(* sequence of children ks; returns vals as a sequence in val *)
DSeq(ks, X, p, c, env, vals) ==
  IF ks = <<>> THEN R(TRUE, p, vals, <<>>, {})
  ELSE LET r == D(Head(ks), X, p, c, env) IN
       IF ~r.ok THEN Fail(r.fl)
       ELSE LET rest == DSeq(Tail(ks), X, r.end, c, env, Append(vals, r.val)) IN
            IF ~rest.ok THEN Fail(r.fl \cup rest.fl)
            ELSE R(TRUE, rest.end, rest.val, r.em \o rest.em, r.fl \cup rest.fl)

(* first succeeding alternative; an alternative that failed is never revisited *)
DAlts(as, X, p, c, env) ==
  IF as = <<>> THEN Fail({})
  ELSE LET r == D(Head(as), X, p, c, env) IN
       IF r.ok THEN r
       ELSE LET rest == DAlts(Tail(as), X, p, c, env) IN
            IF rest.ok THEN R(TRUE, rest.end, rest.val, rest.em, r.fl \cup rest.fl)
            ELSE Fail(r.fl \cup rest.fl)

(* greedy, possessive repetition of item a with n items already taken:    *)
(* take items until a fails or hi is reached; succeed iff count >= lo.    *)
(* val is the sequence of item values.                                     *)
DRep(a, lo, hi, X, p, c, env, n) ==
  IF ~LtHi(n, hi) THEN R(TRUE, p, <<>>, <<>>, {})
  ELSE LET r == D(a, X, p, c, env) IN
       IF ~r.ok THEN (IF n >= lo THEN R(TRUE, p, <<>>, <<>>, r.fl) ELSE Fail(r.fl))
       ELSE LET rest == DRep(a, lo, hi, X, r.end, c, env, n + 1) IN
            IF ~rest.ok THEN Fail(r.fl \cup rest.fl)
            ELSE R(TRUE, rest.end, <<r.val>> \o rest.val, r.em \o rest.em, r.fl \cup rest.fl)

(* the same repetition, remembering where each item started and ended: val = <<v, start, end>> *)
RECURSIVE DRepP(_, _, _, _, _, _, _, _)
DRepP(a, lo, hi, X, p, c, env, n) ==
  IF ~LtHi(n, hi) THEN R(TRUE, p, <<>>, <<>>, {})
  ELSE LET r == D(a, X, p, c, env) IN
       IF ~r.ok THEN (IF n >= lo THEN R(TRUE, p, <<>>, <<>>, r.fl) ELSE Fail(r.fl))
       ELSE LET rest == DRepP(a, lo, hi, X, r.end, c, env, n + 1) IN
            IF ~rest.ok THEN Fail(r.fl \cup rest.fl)
            ELSE R(TRUE, rest.end, <<<<r.val, p, r.end>>>> \o rest.val, r.em \o rest.em, r.fl \cup rest.fl)

(* foldl_with / foldr_with over a plain repetition: the span handed to the folder covers the   *)
(* sub-expression being built (C07)                                                            *)
RECURSIVE DFoldLW(_, _, _, _, _, _)
DFoldLW(fn, acc, items, X, p0, c) ==
  IF items = <<>> THEN acc
  ELSE LET it == Head(items)
           sp == XSpan(X, p0, it[3])
       IN DFoldLW(fn, VW(VF(fn, acc, it[1]), sp[1], sp[2], c, it[3]), Tail(items), X, p0, c)
RECURSIVE DFoldRW(_, _, _, _, _, _)
DFoldRW(fn, items, acc, X, pend, c) ==
  IF items = <<>> THEN acc
  ELSE LET it == Head(items)
           sp == XSpan(X, it[2], pend)
       IN VW(VF(fn, it[1], DFoldRW(fn, Tail(items), acc, X, pend, c)), sp[1], sp[2], c, pend)

(* separated_by: it = <<"sep", item, sep, lo, hi, lead, trail>>            *)
(* A separator is consumed only between two accepted items, or before the  *)
(* first item when allow_leading, or after the last when allow_trailing.   *)
DSep(it, X, p, c, env, n, enumd) ==
  LET a == it[2] s == it[3] lo == it[4] hi == it[5] lead == it[6] trail == it[7] IN
  IF ~LtHi(n, hi) THEN R(TRUE, p, <<>>, <<>>, {})
  ELSE
    LET needSep == n > 0
        trySep == needSep \/ lead
        rs == IF trySep THEN D(s, X, p, c, env) ELSE R(TRUE, p, VU, <<>>, {})
        sfl == IF trySep THEN rs.fl ELSE {}
    IN
    IF needSep /\ ~rs.ok THEN (IF n < lo THEN Fail(sfl) ELSE R(TRUE, p, <<>>, <<>>, sfl))
    ELSE
      LET p1 == IF rs.ok THEN rs.end ELSE p
          sem == IF rs.ok THEN rs.em ELSE <<>>
          ra == D(a, X, p1, c, env)
      IN
      IF ~ra.ok
      THEN IF n < lo THEN Fail(sfl \cup ra.fl)
           ELSE IF trail THEN R(TRUE, p1, <<>>, sem, sfl \cup ra.fl)      \* separator stays consumed
           ELSE R(TRUE, p, <<>>, <<>>, sfl \cup ra.fl)
      ELSE LET rest == DSep(it, X, ra.end, c, env, n + 1, enumd)
               v == IF enumd THEN VP(VI(n), ra.val) ELSE ra.val
           IN IF ~rest.ok THEN Fail(sfl \cup ra.fl \cup rest.fl)
              ELSE R(TRUE, rest.end, <<v>> \o rest.val, sem \o ra.em \o rest.em, sfl \cup ra.fl \cup rest.fl)

(* the items of an iterator node *)
DIterLH(it, X, p, c, env, lo, hi) ==
  LET o == Op(it) IN
  CASE o = "rep" -> DRep(it[2], lo, hi, X, p, c, env, 0)
    [] o = "sep" -> DSep(<<"sep", it[2], it[3], lo, hi, it[6], it[7]>>, X, p, c, env, 0, FALSE)
    [] o \in {"cfgrep", "cfgrepmin", "cfgrepmax", "cfgreptry"} ->
         \* a configuration that cannot be computed is a failure of the configured parser, right where it starts
         IF o = "cfgreptry" /\ DCtxNum(c) > 2 THEN Fail({EvUser(X, p, p, p, "tc")})
         ELSE DRep(it[2][2], lo, hi, X, p, c, env, 0)
    \* p.into_iter(): the items are the elements of p's output, in order; the input moves by what p consumed
    [] o = "intoiter" -> LET r == D(it[2], X, p, c, env) IN IF r.ok THEN [r EXCEPT !.val = @[2]] ELSE r
    [] o = "enum" ->
         IF Op(it[2]) = "rep"
         THEN LET r == DRep(it[2][2], lo, hi, X, p, c, env, 0) IN
              IF r.ok THEN [r EXCEPT !.val = [i \in DOMAIN r.val |-> VP(VI(i - 1), r.val[i])]] ELSE r
         ELSE DSep(<<"sep", it[2][2], it[2][3], lo, hi, it[2][6], it[2][7]>>, X, p, c, env, 0, TRUE)
(* a repetition configured from context matches exactly as the statically configured one (C15) *)
ItLo(it, c) == CASE Op(it) = "intoiter" -> 0 [] Op(it) \in {"cfgrep", "cfgrepmin", "cfgreptry"} -> DCtxNum(c) [] Op(it) = "cfgrepmax" -> it[2][3] [] Op(it) = "enum" -> it[2][IF Op(it[2]) = "rep" THEN 3 ELSE 4]
                 [] Op(it) = "rep" -> it[3] [] Op(it) = "sep" -> it[4]
ItHi(it, c) == CASE Op(it) = "intoiter" -> Inf [] Op(it) \in {"cfgrep", "cfgrepmax", "cfgreptry"} -> DCtxNum(c) [] Op(it) = "cfgrepmin" -> it[2][4] [] Op(it) = "enum" -> it[2][IF Op(it[2]) = "rep" THEN 4 ELSE 5]
                 [] Op(it) = "rep" -> it[4] [] Op(it) = "sep" -> it[5]
DIter(it, X, p, c, env) == DIterLH(it, X, p, c, env, ItLo(it, c), ItHi(it, c))

(* the error a parse would report as primary were the failure final: the  *)
(* furthest failure, expectations merged (C06/C08).  Deterministic        *)
(* representative: merged Rich error over the events at the maximal pos.  *)
MaxPos(fl) == CHOOSE m \in {e.pos : e \in fl} : \A e \in fl : e.pos <= m
AtMax(fl) == {e \in fl : e.pos = MaxPos(fl)}

(* skip_until(skip, until): the least number of skip steps after which    *)
(* `until` matches; fails when a skip step fails first.                    *)
DSkipUntil(skip, until, X, p, c, env) ==
  LET ru == D(until, X, p, c, env) IN
  IF ru.ok THEN R(TRUE, ru.end, VU, ru.em, ru.fl)
  ELSE LET rsk == D(skip, X, p, c, env) IN
       IF ~rsk.ok THEN Fail(ru.fl \cup rsk.fl)
       ELSE LET rest == DSkipUntil(skip, until, X, rsk.end, c, env) IN
            IF rest.ok THEN R(TRUE, rest.end, VU, rsk.em \o rest.em, ru.fl \cup rsk.fl \cup rest.fl)
            ELSE Fail(ru.fl \cup rsk.fl \cup rest.fl)

(* skip_then_retry_until(skip, until): give up when `until` matches or    *)
(* skipping fails; after each skip step retry a, accepting only a retry   *)
(* that succeeds without emitting.                                         *)
DRetry(a, skip, until, X, p, c, env) ==
  LET ru == D(until, X, p, c, env) IN
  IF ru.ok THEN Fail({})
  ELSE LET rsk == D(skip, X, p, c, env) IN
       IF ~rsk.ok THEN Fail({})
       ELSE LET ra == D(a, X, rsk.end, c, env) IN
            IF ra.ok /\ ra.em = <<>> THEN R(TRUE, ra.end, ra.val, rsk.em, {})
            ELSE LET rest == DRetry(a, skip, until, X, rsk.end, c, env) IN
                 IF rest.ok THEN R(TRUE, rest.end, rest.val, rsk.em \o rest.em, {}) ELSE Fail({})

(* The textbook binding-power (precedence climbing) algorithm, C09.  Operators are tried in  *)
(* declaration order.  left(x) = (2x, 2x+1), right(x) = (2x+1, 2x); a prefix operator of power  *)
(* x parses its operand with minimum power 2x; a postfix one applies when 2x+1 >= min.          *)
DLeftPow(op) == IF op[1] = "infixr" THEN 2 * op[2] + 1 ELSE 2 * op[2]
DRightPow(op) == IF op[1] = "infixr" THEN 2 * op[2] ELSE 2 * op[2] + 1
DW(X, v, s, e, c) == LET sp == XSpan(X, s, e) IN VW(v, sp[1], sp[2], c, e)
(* An operator is recognised by its own parser op[3] (any grammar).  What the operator parser  *)
(* emitted counts only if the operator is kept (its operand parses).                            *)
(* first prefix operator (from index k) that matches and whose operand parses; else the atom *)
DPrattPrefix(g, X, p, c, env, minp, k) ==
  LET ops == g[3] IN
  IF k > Len(ops) THEN D(g[2], X, p, c, env)
  ELSE LET op == ops[k]
           ro == IF op[1] = "prefix" THEN D(op[3], X, p, c, env) ELSE Fail({})
       IN
       IF ro.ok
       THEN LET r == DPratt(g, X, ro.end, c, env, 2 * op[2]) IN
            IF r.ok THEN [r EXCEPT !.val = DW(X, VF("pre", ro.val, r.val), p, r.end, c), !.em = ro.em \o @]
            ELSE DPrattPrefix(g, X, p, c, env, minp, k + 1)
       ELSE DPrattPrefix(g, X, p, c, env, minp, k + 1)
(* first applicable postfix operator from index k: result [hit, end, val] *)
DPrattPost(g, X, p0, q, c, env, minp, lhs, k) ==
  LET ops == g[3] IN
  IF k > Len(ops) THEN [hit |-> FALSE, end |-> q, val |-> lhs, em |-> <<>>]
  ELSE LET op == ops[k]
           ro == IF op[1] = "postfix" /\ 2 * op[2] + 1 >= minp THEN D(op[3], X, q, c, env) ELSE Fail({})
       IN
       IF ro.ok
       THEN [hit |-> TRUE, end |-> ro.end, val |-> DW(X, VF("post", lhs, ro.val), p0, ro.end, c), em |-> ro.em]
       ELSE DPrattPost(g, X, p0, q, c, env, minp, lhs, k + 1)
(* first infix operator from index k that applies, matches and finds a right operand *)
DPrattInfix(g, X, p0, q, c, env, minp, lhs, k) ==
  LET ops == g[3] IN
  IF k > Len(ops) THEN [hit |-> FALSE, end |-> q, val |-> lhs, em |-> <<>>]
  ELSE LET op == ops[k]
           ro == IF op[1] \in {"infixl", "infixr"} /\ DLeftPow(op) >= minp THEN D(op[3], X, q, c, env) ELSE Fail({})
       IN
       IF ro.ok
       THEN LET r == DPratt(g, X, ro.end, c, env, DRightPow(op)) IN
            IF r.ok THEN [hit |-> TRUE, end |-> r.end, em |-> ro.em \o r.em,
                          val |-> DW(X, VF("in", VP(lhs, ro.val), r.val), p0, r.end, c)]
            ELSE DPrattInfix(g, X, p0, q, c, env, minp, lhs, k + 1)
       ELSE DPrattInfix(g, X, p0, q, c, env, minp, lhs, k + 1)
DPrattLoop(g, X, p0, q, c, env, minp, acc) ==
  LET po == DPrattPost(g, X, p0, q, c, env, minp, acc.val, 1) IN
  IF po.hit THEN DPrattLoop(g, X, p0, po.end, c, env, minp, [acc EXCEPT !.val = po.val, !.em = @ \o po.em])
  ELSE LET inf == DPrattInfix(g, X, p0, q, c, env, minp, acc.val, 1) IN
       IF inf.hit THEN DPrattLoop(g, X, p0, inf.end, c, env, minp, [acc EXCEPT !.val = inf.val, !.em = @ \o inf.em])
       ELSE [acc EXCEPT !.end = q]
DPratt(g, X, p, c, env, minp) ==
  LET first == DPrattPrefix(g, X, p, c, env, minp, 1) IN
  IF ~first.ok THEN Fail({})
  ELSE DPrattLoop(g, X, p, first.end, c, env, minp, R(TRUE, first.end, first.val, first.em, {}))

(* custom(|inp| program): the closure reads tokens, may remember one position and return to it -- which, backtracking   *)
(* being atomic (C05), also forgets whatever was emitted since -- and may run sub-parsers in place.  q = position,        *)
(* sv = <<saved position, emissions at the time>>.  The value is the span from the start to the final position.           *)
DProg(g, X, p0, c, env, i, q, acc) ==       \* acc = [em, fl, sv]
  LET ins == g[2] IN
  IF i > Len(ins) THEN LET sp == XSpan(X, p0, q) IN
                       R(TRUE, q, IF acc.vals = <<>> THEN VSp(sp[1], sp[2]) ELSE VP(VL(acc.vals), VSp(sp[1], sp[2])), acc.em, acc.fl)
  ELSE LET o == ins[i]
           t == XTok(X, q)
           fail == Fail(acc.fl \cup {EvUser(X, p0, p0, q, "cu")})
       IN CASE o[1] \in {"n", "nm"} -> IF t = "" THEN fail ELSE DProg(g, X, p0, c, env, i + 1, XNxt(X, q), acc)
            \* observers: the span since the remembered position, the tokens before the cursor, the context
            [] o[1] = "ss" -> LET sp == XSpan(X, acc.sv[1], q) IN DProg(g, X, p0, c, env, i + 1, q, [acc EXCEPT !.vals = Append(@, VSp(sp[1], sp[2]))])
            [] o[1] = "st" -> DProg(g, X, p0, c, env, i + 1, q, [acc EXCEPT !.vals = Append(@, VI(q))])
            [] o[1] = "cx" -> DProg(g, X, p0, c, env, i + 1, q, [acc EXCEPT !.vals = Append(@, c)])
            [] o[1] = "s" -> DProg(g, X, p0, c, env, i + 1, IF t = "" THEN q ELSE XNxt(X, q), acc)
            [] o[1] \in {"p", "pm"} -> IF t = o[2] THEN DProg(g, X, p0, c, env, i + 1, q, acc) ELSE fail
            [] o[1] = "sv" -> DProg(g, X, p0, c, env, i + 1, q, [acc EXCEPT !.sv = <<q, Len(acc.em)>>])
            [] o[1] = "rw" -> DProg(g, X, p0, c, env, i + 1, acc.sv[1], [acc EXCEPT !.em = SubSeq(@, 1, acc.sv[2])])
            [] o[1] = "f" -> fail
            [] o[1] \in {"sub", "chk"} ->
                 LET r == D(g[3][o[2]], X, q, c, env) IN
                 IF r.ok THEN DProg(g, X, p0, c, env, i + 1, r.end, [acc EXCEPT !.em = @ \o r.em, !.fl = @ \cup r.fl])
                 ELSE Fail(acc.fl \cup r.fl)

D(g, X, p, c, env) ==
  LET o == Op(g)
      t == XTok(X, p)
      one(okc, v, exp) == IF t # "" /\ okc THEN R(TRUE, XNxt(X, p), v, <<>>, {}) ELSE Fail({EvTok(X, p, exp)})
      just(seq) == LET k == Pfx(X, seq, p) IN
                   IF k = Len(seq) THEN R(TRUE, p + k, VS(seq), <<>>, {})
                   ELSE Fail({EvTok(X, p + k, {"t:" \o seq[k + 1]})})
      un == D(g[2], X, p, c, env)             \* the single child, where there is one
  IN
  CASE o = "just" -> just(g[2])
    [] o \in {"cfgjust", "cfgjustr"} -> just(DCtxToks(c))
    [] o \in {"any", "anyr"} -> one(TRUE, VT(t), {"any"})
    [] o = "oneof" -> one(t \in SeqToSet(g[2]), VT(t), {"t:" \o x : x \in SeqToSet(g[2])})
    [] o = "noneof" -> one(t \notin SeqToSet(g[2]), VT(t), {"else"})
    [] o \in {"sel", "selr"} -> one(t \in SeqToSet(g[2]), VM("sel", VT(t)), {"else"})
    [] o = "end" -> IF t = "" THEN R(TRUE, p, VU, <<>>, {}) ELSE Fail({EvTok(X, p, {"eoi"})})
    [] o \in {"empty", "probe"} -> R(TRUE, p, VU, <<>>, {})
    [] o \in {"cust", "ext"} ->
         LET a == XAdvK(X, p, g[2], 0) IN
         IF a[2] = g[2] /\ g[3] THEN R(TRUE, a[1], VC(g[2]), <<>>, {})
         ELSE Fail({EvUser(X, p, p, a[1], "cu")})
    [] o = "prog" -> DProg(g, X, p, c, env, 1, p, [em |-> <<>>, fl |-> {}, sv |-> <<p, 0>>, vals |-> <<>>])
    [] o = "newline" ->
         IF t = "R" THEN R(TRUE, IF XTok(X, p + 1) = "N" THEN p + 2 ELSE p + 1, VU, <<>>, {})
         ELSE IF t \in ClsNewline THEN R(TRUE, p + 1, VU, <<>>, {})
         ELSE Fail({EvEF(X, p, {"x:newline"}, t, p, IF t = "" THEN p ELSE p + 1)})
    [] o = "text" -> D(g[4], X, p, c, env)
    [] o = "sleq" ->
         IF ~un.ok \/ SubSeq(X.toks, p + 1, un.end) = g[3] THEN un
         ELSE Fail(un.fl \cup {[pos |-> p, rd |-> "start", err |-> LET sp == XSpan(X, p, un.end) IN MkErr(sp[1], sp[2], "", {"x:keyword"}, "", <<>>)],
                               [pos |-> un.end, rd |-> "end", err |-> LET sp == XSpan(X, p, un.end) IN MkErr(sp[1], sp[2], "", {"x:keyword"}, "", <<>>)]})
    [] o = "tpadded" ->
         LET r == D(g[2], X, XSkipWs(X, p), c, env) IN IF r.ok THEN [r EXCEPT !.end = XSkipWs(X, @)] ELSE r
    \* a group token yields its inner input
    [] o = "tree" -> one(t = "(", <<"In", p + 1, XNxt(X, p) - 1>>, {"else"})
    \* C16: a.nested_in(b): b yields the inner input; a must match ALL of it (and nothing else:
    \* it sees exactly the tokens of that group); the outer position advances by what b consumed;
    \* emissions of both surface in order; inner failures surface at the outer position
    [] o = "nested" ->
         LET rb == D(g[3], X, p, c, env) IN
         IF ~rb.ok THEN rb
         ELSE LET XI == [X EXCEPT !.lo = rb.val[2], !.hi = rb.val[3]]
                  ra == D(<<"theni", g[2], <<"end">>>>, XI, XI.lo, c, env)
                  ifl == {[e EXCEPT !.pos = rb.end] : e \in ra.fl}
              IN IF ra.ok THEN R(TRUE, rb.end, ra.val, rb.em \o ra.em, rb.fl \cup ifl)
                 ELSE Fail(rb.fl \cup ifl)
    [] o \in {"then", "ithen", "theni"} ->
         LET r == DSeq(<<g[2], g[3]>>, X, p, c, env, <<>>) IN
         IF ~r.ok THEN r
         ELSE [r EXCEPT !.val = CASE o = "then" -> VP(@[1], @[2]) [] o = "ithen" -> @[2] [] o = "theni" -> @[1]]
    [] o = "delim" ->
         LET r == DSeq(<<g[3], g[2], g[4]>>, X, p, c, env, <<>>) IN IF r.ok THEN [r EXCEPT !.val = @[2]] ELSE r
    [] o = "padded" ->
         LET r == DSeq(<<g[3], g[2], g[3]>>, X, p, c, env, <<>>) IN IF r.ok THEN [r EXCEPT !.val = @[2]] ELSE r
    [] o = "lazy" ->
         LET r == DSeq(<<g[2], AnyRun>>, X, p, c, env, <<>>) IN IF r.ok THEN [r EXCEPT !.val = @[1]] ELSE r
    [] o = "group" -> LET r == DSeq(g[2], X, p, c, env, <<>>) IN IF r.ok THEN [r EXCEPT !.val = VG(@)] ELSE r
    [] o = "grouparr" -> LET r == DSeq(g[2], X, p, c, env, <<>>) IN IF r.ok THEN [r EXCEPT !.val = VA(@)] ELSE r
    [] o = "or" -> DAlts(<<g[2], g[3]>>, X, p, c, env)
    [] o = "choice" -> DAlts(g[2], X, p, c, env)
    [] o = "choicev" ->
         IF g[2] = <<>> THEN Fail({EvEF(X, p, {}, "", p, p)}) ELSE DAlts(g[2], X, p, c, env)
    [] o = "ornot" -> IF un.ok THEN [un EXCEPT !.val = VO(@)] ELSE R(TRUE, p, VN, <<>>, un.fl)
    [] o = "not" ->
         \* lookahead: consumes nothing, keeps nothing of what the operand did
         IF un.ok THEN Fail({EvEF(X, IF t = "" THEN p ELSE XNxt(X, p), {"else"}, t, p, un.end)})
         ELSE R(TRUE, p, VU, <<>>, {})
    [] o = "rewind" -> IF un.ok THEN [un EXCEPT !.end = p] ELSE un
    [] o = "andis" ->
         IF ~un.ok THEN un
         ELSE LET rb == D(g[3], X, p, c, env) IN
              IF rb.ok THEN [un EXCEPT !.fl = @ \cup rb.fl] ELSE Fail(un.fl \cup rb.fl)
    [] o = "map" -> IF un.ok THEN [un EXCEPT !.val = MapFn(g[3], @)] ELSE un
    [] o = "to" -> IF un.ok THEN [un EXCEPT !.val = VK(g[3])] ELSE un
    [] o = "ignored" -> IF un.ok THEN [un EXCEPT !.val = VU] ELSE un
    [] o \in {"boxed", "memo"} -> un
    [] o = "mw" ->
         LET sp == XSpan(X, p, un.end) IN
         IF un.ok THEN [un EXCEPT !.val = VW(@, sp[1], sp[2], c, un.end)] ELSE un
    [] o = "tospan" -> LET sp == XSpan(X, p, un.end) IN IF un.ok THEN [un EXCEPT !.val = VSp(sp[1], sp[2])] ELSE un
    [] o = "toslice" -> LET sp == XSpan(X, p, un.end) IN IF un.ok THEN [un EXCEPT !.val = VSl(sp[1], sp[2])] ELSE un
    [] o = "filter" ->
         \* a rejecting filter counts as failure of the sub-parser
         IF ~un.ok \/ Pred(g[3], un.val) THEN un
         \* located at the start of the rejected match, so that span start, position and found agree
         ELSE Fail(un.fl \cup {EvEF(X, p, {"else"}, XTok(X, p), p, un.end)})
    [] o = "trymap" ->
         IF ~un.ok \/ Pred(g[3], un.val) THEN un
         ELSE Fail(un.fl \cup {EvUserRd(X, p, "start", p, un.end, "tm"), EvUserRd(X, un.end, "end", p, un.end, "tm")})
    [] o = "trymapw" ->
         IF ~un.ok \/ Pred(g[3], un.val) THEN un ELSE Fail(un.fl \cup {EvUser(X, un.end, p, un.end, "tw")})
    [] o = "validate" ->
         LET sp == XSpan(X, p, un.end) IN
         IF ~un.ok \/ Pred(g[4], un.val) THEN un
         ELSE [un EXCEPT !.em = Append(@, MkErr(sp[1], sp[2], "", {}, "v" \o g[3], <<>>))]
    [] o \in {"collect", "run"} ->
         LET r == DIter(g[2], X, p, c, env) IN
         IF ~r.ok THEN r ELSE [r EXCEPT !.val = IF o = "run" THEN VU ELSE Sink(g[3], @)]
    [] o = "exact" ->
         \* exactly N items are taken; fewer available is a failure
         LET it == g[2] N == g[3]
             hi0 == ItHi(it, c)
             r == DIterLH(it, X, p, c, env, Min2(ItLo(it, c), N), IF hi0 = Inf THEN N ELSE Min2(hi0, N))
         IN IF ~r.ok THEN r
            \* an iterator with items of its own (into_iter) is simply asked N times: the first N elements
            ELSE IF Op(it) = "intoiter" /\ Len(r.val) >= N THEN [r EXCEPT !.val = VA(SubSeq(@, 1, N))]
            ELSE IF Len(r.val) = N THEN [r EXCEPT !.val = VA(@)]
            \* too few items: a failure of its own at the position where the N-th item was wanted
            ELSE Fail(r.fl \cup {EvTok(X, r.end, {})})
    [] o = "foldl" ->
         IF ~un.ok THEN un
         ELSE LET r == DIter(g[3], X, un.end, c, env) IN
              IF ~r.ok THEN Fail(un.fl \cup r.fl)
              ELSE R(TRUE, r.end, FoldL(g[4], un.val, r.val), un.em \o r.em, un.fl \cup r.fl)
    [] o = "foldlw" ->
         IF ~un.ok THEN un
         ELSE LET it == g[3]
                  r == DRepP(it[2], it[3], it[4], X, un.end, c, env, 0)
              IN IF ~r.ok THEN Fail(un.fl \cup r.fl)
                 ELSE R(TRUE, r.end, DFoldLW(g[4], un.val, r.val, X, p, c), un.em \o r.em, un.fl \cup r.fl)
    [] o = "foldrw" ->
         LET it == g[2]
             r == DRepP(it[2], it[3], it[4], X, p, c, env, 0)
         IN IF ~r.ok THEN r
            ELSE LET rb == D(g[3], X, r.end, c, env) IN
                 IF ~rb.ok THEN Fail(r.fl \cup rb.fl)
                 ELSE R(TRUE, rb.end, DFoldRW(g[4], r.val, rb.val, X, rb.end, c), r.em \o rb.em, r.fl \cup rb.fl)
    [] o = "foldr" ->
         LET r == DIter(g[2], X, p, c, env) IN
         IF ~r.ok THEN r
         ELSE LET rb == D(g[3], X, r.end, c, env) IN
              IF ~rb.ok THEN Fail(r.fl \cup rb.fl)
              ELSE R(TRUE, rb.end, FoldR(g[4], r.val, rb.val), r.em \o rb.em, r.fl \cup rb.fl)
    [] o = "pratt" -> DPratt(g, X, p, c, env, 0)
    [] o \in {"rec", "recd"} -> D(g[2], X, p, c, <<g[2]>> \o env)     \* recd: Recursive::declare / define
    [] o = "ref" -> D(env[g[2]], X, p, c, SubSeq(env, g[2], Len(env)))
    [] o = "let" -> D(g[3], X, p, c, <<g[2]>> \o env)            \* sharing a parser value changes nothing
    [] o = "var" -> D(env[g[2]], X, p, c, SubSeq(env, g[2] + 1, Len(env)))
    [] o = "withctx" -> D(g[3], X, p, g[2], env)
    [] o = "mapctx" -> D(g[3], X, p, MapFn(g[2], c), env)
    [] o \in {"thenctx", "ignctx"} ->
         IF ~un.ok THEN un
         ELSE LET rb == D(g[3], X, un.end, un.val, env) IN
              IF ~rb.ok THEN Fail(un.fl \cup rb.fl)
              ELSE R(TRUE, rb.end, IF o = "thenctx" THEN VP(un.val, rb.val) ELSE rb.val,
                     un.em \o rb.em, un.fl \cup rb.fl)
    [] o \in {"label", "maperr", "withstate", "extsub"} -> un      \* erasure: decorations never change the match
    [] o = "recover" ->
         \* C08: transparent on success; on failure the strategy's outcome plus exactly one
         \* extra error (added by the caller, which knows the pending primary error)
         IF un.ok THEN un
         ELSE LET s == g[3]
                  rs == CASE Op(s) = "via" -> D(s[2], X, p, c, env)
                          [] Op(s) = "nesteddelim" -> D(s[5], X, p, c, env)
                          [] Op(s) = "skipuntil" ->
                               LET r == DSkipUntil(s[2], s[3], X, p, c, env) IN
                               IF r.ok THEN [r EXCEPT !.val = VE("su")] ELSE r
                          [] Op(s) = "retry" -> DRetry(g[2], s[2], s[3], X, p, c, env)
              IN IF rs.ok THEN [rs EXCEPT !.em = Append(@, RecMark), !.fl = un.fl \cup @]
                 ELSE Fail(un.fl)
---------------------------------------------------------------------------
(* C14: the documented languages of the text parsers, written from the documentation and not  *)
(* from their construction: TextMatch(name, arg, w) is the number of tokens of w the parser    *)
(* matches at its start, -1 if it does not match.                                              *)
RECURSIVE RunLen(_, _)
RunLen(cls, w) == IF w # <<>> /\ InClass(cls, Head(w)) THEN 1 + RunLen(cls, Tail(w)) ELSE 0
IdentLen(start, cont, w) == IF w # <<>> /\ InClass(start, Head(w)) THEN 1 + RunLen(cont, Tail(w)) ELSE -1
(* nested_delimiters(start, end, others): exactly one balanced delimited region starting here: every   *)
(* opening delimiter (of any listed pair) must be closed by its own closing delimiter, in nesting order; *)
(* arg = <<start, end, <<o1, c1>>, ...>>.  NDScan(w, i, stack) = number of tokens up to and including   *)
(* the delimiter that closes the outermost region, -1 if the region is never or wrongly closed.          *)
NDPairs(arg) == {<<arg[1], arg[2]>>} \cup {arg[k] : k \in 3..Len(arg)}
RECURSIVE NDScan(_, _, _, _)
NDScan(arg, w, i, stk) ==
  IF stk = <<>> THEN i - 1
  ELSE IF i > Len(w) THEN -1
  ELSE LET t == w[i] IN
       IF \E pr \in NDPairs(arg) : pr[1] = t
       THEN NDScan(arg, w, i + 1, <<(CHOOSE pr \in NDPairs(arg) : pr[1] = t)[2]>> \o stk)
       ELSE IF \E pr \in NDPairs(arg) : pr[2] = t
            THEN (IF t = Head(stk) THEN NDScan(arg, w, i + 1, Tail(stk)) ELSE -1)
       ELSE NDScan(arg, w, i + 1, stk)
TextMatch(name, arg, w) ==
  CASE name = "nd" -> IF w # <<>> /\ w[1] = arg[1] THEN NDScan(arg, w, 2, <<arg[2]>>) ELSE -1
    [] name = "ws" -> RunLen("ws", w)                              \* any run of whitespace, possibly empty
    [] name = "iws" -> RunLen("iws", w)
    [] name = "nl" -> IF w = <<>> THEN -1                           \* one line terminator, CR LF counting as one
                      ELSE IF Len(w) >= 2 /\ w[1] = "R" /\ w[2] = "N" THEN 2
                      ELSE IF w[1] \in ClsNewline THEN 1 ELSE -1
    [] name = "digits" -> IF RunLen("dig" \o arg, w) >= 1 THEN RunLen("dig" \o arg, w) ELSE -1
    [] name = "int" ->                                              \* a digit string without superfluous leading zero
         IF w = <<>> THEN -1
         ELSE IF w[1] = "0" THEN 1
         ELSE IF InClass("dig" \o arg, w[1]) THEN 1 + RunLen("dig" \o arg, Tail(w)) ELSE -1
    [] name = "aident" -> IdentLen("aidstart", "aidcont", w)
    [] name = "uident" -> IdentLen("uidstart", "uidcont", w)
    [] name = "akw" -> IF IdentLen("aidstart", "aidcont", w) = Len(arg) /\ SubSeq(w, 1, Len(arg)) = arg THEN Len(arg) ELSE -1
    [] name = "ukw" -> IF IdentLen("uidstart", "uidcont", w) = Len(arg) /\ SubSeq(w, 1, Len(arg)) = arg THEN Len(arg) ELSE -1
=============================================================================
