------------------------------ MODULE RecData ------------------------------
(* Placeholder: the driver (./check) overwrites this module, in a scratch copy of spec/, with  *)
(* the cases recorded from the real crate for trace validation: RecData is the sequence of     *)
(* recorded records (case, observation, mask), RecCases the sequence of their case parts       *)
(* [g, inp, offs, kind, ety, mode].                                                            *)
RecData == <<>>
RecCases == <<>>
=============================================================================
